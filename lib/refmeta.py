"""Independent reference for SMF meta events: payload codec and documented attribute domains
(docs/meta_message_types.rst and the Standard MIDI File 1.0 specification)."""
from . import refmidi as R

TEXT_TYPES = {'text': (0x01, 'text'), 'copyright': (0x02, 'text'), 'track_name': (0x03, 'name'),
              'instrument_name': (0x04, 'name'), 'lyrics': (0x05, 'text'), 'marker': (0x06, 'text'),
              'cue_marker': (0x07, 'text'), 'device_name': (0x09, 'name')}

# name -> (type byte, [(attribute, default)])
META = {
    'sequence_number': (0x00, [('number', 0)]),
    **{k: (v[0], [(v[1], '')]) for k, v in TEXT_TYPES.items()},
    'channel_prefix': (0x20, [('channel', 0)]),
    'midi_port': (0x21, [('port', 0)]),
    'end_of_track': (0x2F, []),
    'set_tempo': (0x51, [('tempo', 500000)]),
    'smpte_offset': (0x54, [('frame_rate', 24), ('hours', 0), ('minutes', 0), ('seconds', 0), ('frames', 0),
                            ('sub_frames', 0)]),
    'time_signature': (0x58, [('numerator', 4), ('denominator', 4), ('clocks_per_click', 24),
                              ('notated_32nd_notes_per_beat', 8)]),
    'key_signature': (0x59, [('key', 'C')]),
    'sequencer_specific': (0x7F, [('data', [])]),
}
KNOWN_TYPE_BYTES = {v[0] for v in META.values()}
BY_TYPE_BYTE = {v[0]: k for k, v in META.items()}

# sharps/flats count (two's complement byte) and mode, written out by hand from the SMF specification
KEYS = {
    'Cb': (-7, 0), 'Gb': (-6, 0), 'Db': (-5, 0), 'Ab': (-4, 0), 'Eb': (-3, 0), 'Bb': (-2, 0), 'F': (-1, 0),
    'C': (0, 0), 'G': (1, 0), 'D': (2, 0), 'A': (3, 0), 'E': (4, 0), 'B': (5, 0), 'F#': (6, 0), 'C#': (7, 0),
    'Abm': (-7, 1), 'Ebm': (-6, 1), 'Bbm': (-5, 1), 'Fm': (-4, 1), 'Cm': (-3, 1), 'Gm': (-2, 1), 'Dm': (-1, 1),
    'Am': (0, 1), 'Em': (1, 1), 'Bm': (2, 1), 'F#m': (3, 1), 'C#m': (4, 1), 'G#m': (5, 1), 'D#m': (6, 1),
    'A#m': (7, 1),
}
FRAME_RATES = {24: 0, 25: 1, 29.97: 2, 30: 3}

INT_RANGES = {
    ('sequence_number', 'number'): (0, 65535),
    ('channel_prefix', 'channel'): (0, 255),
    ('midi_port', 'port'): (0, 255),
    ('set_tempo', 'tempo'): (0, 16777215),
    ('smpte_offset', 'hours'): (0, 255),
    ('smpte_offset', 'minutes'): (0, 59),
    ('smpte_offset', 'seconds'): (0, 59),
    ('smpte_offset', 'frames'): (0, 255),
    ('smpte_offset', 'sub_frames'): (0, 99),
    ('time_signature', 'numerator'): (0, 255),
    ('time_signature', 'clocks_per_click'): (0, 255),
    ('time_signature', 'notated_32nd_notes_per_beat'): (0, 255),
}


def is_meta(d):
    return d['type'] in META or d['type'] == 'unknown_meta'


def attr_names(t):
    return [a for a, _ in META[t][1]]


def default_meta(t, **over):
    d = {'type': t}
    for a, dv in META[t][1]:
        d[a] = list(dv) if isinstance(dv, list) else dv
    d['time'] = 0
    d.update(over)
    return d


def value_ok(t, name, v):
    """Documented domain of one meta attribute."""
    if (t, name) in INT_RANGES:
        lo, hi = INT_RANGES[(t, name)]
        return R.is_int(v) and lo <= v <= hi
    if t in TEXT_TYPES and name == TEXT_TYPES[t][1]:
        return isinstance(v, str)
    if (t, name) == ('time_signature', 'denominator'):
        return R.is_int(v) and 1 <= v <= 2 ** 255 and bin(v).count('1') == 1
    if (t, name) == ('key_signature', 'key'):
        return isinstance(v, str) and v in KEYS
    if (t, name) == ('smpte_offset', 'frame_rate'):
        return (R.is_int(v) or isinstance(v, float)) and v in FRAME_RATES
    if (t, name) == ('sequencer_specific', 'data'):
        return isinstance(v, (list, tuple)) and all(R.is_int(b) and 0 <= b <= 255 for b in v)
    raise KeyError((t, name))


def vlq(n):
    """Minimal variable-length quantity."""
    out = [n % 128]
    n //= 128
    while n:
        out.insert(0, 128 + n % 128)
        n //= 128
    return out


def payload(d, charset='latin1'):
    t = d['type']
    if t == 'unknown_meta':
        return [int(b) for b in d['data']]
    if t == 'sequence_number':
        return [d['number'] // 256, d['number'] % 256]
    if t in TEXT_TYPES:
        return list(d[TEXT_TYPES[t][1]].encode(charset))
    if t == 'channel_prefix':
        return [d['channel']]
    if t == 'midi_port':
        return [d['port']]
    if t == 'end_of_track':
        return []
    if t == 'set_tempo':
        v = d['tempo']
        return [v // 65536, (v // 256) % 256, v % 256]
    if t == 'smpte_offset':
        return [FRAME_RATES[d['frame_rate']] * 32 + d['hours'], d['minutes'], d['seconds'], d['frames'],
                d['sub_frames']]
    if t == 'time_signature':
        return [d['numerator'], d['denominator'].bit_length() - 1, d['clocks_per_click'],
                d['notated_32nd_notes_per_beat']]
    if t == 'key_signature':
        sf, mi = KEYS[d['key']]
        return [sf % 256, mi]
    if t == 'sequencer_specific':
        return [int(b) for b in d['data']]
    raise KeyError(t)


def type_byte(d):
    return d['type_byte'] if d['type'] == 'unknown_meta' else META[d['type']][0]


def encode(d, charset='latin1'):
    """FF <type> <vlq length> <payload>."""
    p = payload(d, charset)
    return [0xFF, type_byte(d)] + vlq(len(p)) + p


def to_mido(d):
    """Build the mido object for a message dict (channel/system message, known meta or unknown meta)."""
    import mido
    t = d['type']
    kw = {k: v for k, v in d.items() if k != 'type'}
    if t == 'unknown_meta':
        return mido.UnknownMetaMessage(d['type_byte'], data=d['data'], time=d.get('time', 0))
    if t in META:
        if t == 'sequencer_specific':
            kw['data'] = tuple(kw['data'])      # KF-C09-d: the tuple form is the one that round-trips
        return mido.MetaMessage(t, **kw)
    return mido.Message(t, **kw)


def same(msg, d):
    """Compare a mido message object (any of the three classes) with a dict; None when equal."""
    import mido
    t = d['type']
    v = dict(vars(msg))
    if t == 'unknown_meta':
        want = {'type': 'unknown_meta', 'type_byte': d['type_byte'], 'data': tuple(d['data']), 'time': d.get('time', 0)}
        cls = mido.UnknownMetaMessage
    elif t in META:
        want = dict(d)
        want.setdefault('time', 0)
        if t == 'sequencer_specific':
            want['data'] = tuple(want['data'])
        cls = mido.MetaMessage
    else:
        want = dict(d)
        want.setdefault('time', 0)
        if 'data' in want:
            want['data'] = tuple(want['data'])
        cls = mido.Message
    if type(msg) is not cls:
        return f'class {type(msg).__name__} != {cls.__name__}'
    if set(v) != set(want):
        return f'attributes {sorted(v)} != {sorted(want)}'
    for k in want:
        a, b = v[k], want[k]
        if k == 'data':
            if tuple(a) != tuple(b):
                return f'data {tuple(a)[:8]} != {tuple(b)[:8]}'
        elif a != b or (type(a) is not type(b) and not (isinstance(a, (int, float)) and isinstance(b, (int, float))
                                                         and k == 'frame_rate')):
            return f'{k}: {a!r} ({type(a).__name__}) != {b!r} ({type(b).__name__})'
    return None
