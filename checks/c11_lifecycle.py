"""C11 - port lifecycle: idempotent close, drain then stop, blocking calls terminate."""
from collections import deque

from hypothesis import strategies as st
from hypothesis.stateful import RuleBasedStateMachine, rule

import mido
import mido.ports as ports_mod
from lib.doubles import CLOSE, Dev, DirectDev, FakeSleep, SleepBudget, note, patched_sleep
from lib.harness import Violation, exc_sig, fail

PID = 'C11'
LEVEL = 'exploration'
RULE = ('Rule-based state machines, one per port kind {device double with / without autoreset, EchoPort, '
        'IOPort(device, device with autoreset), MultiPort([device, device])}: rules send, poll, blocking receive (enabled '
        'when the model says a message is or will become deliverable, or the port is / will be closed), iter_pending, '
        'full iteration (enabled when closure is scripted), close, with-block, reset, panic, bytes arriving on the device '
        'wire (whole messages and split messages), a script of future arrivals / device self-closure played by the fake '
        'sleep, and the fault rule "device closes itself" at any position relative to the arrivals; plus an exhaustive '
        'enumeration of every position of the self-close among 0-3 arrivals x every drain method. Oracle: executable '
        'model: _close exactly once however often close/__exit__ run, after exactly one batch of 32 reset messages when '
        'autoreset; send after close raises ValueError; poll/receive/iter_pending/iteration hand out exactly the messages '
        'taken in, FIFO, then None / stop without exception (closure before, between and inside receive calls); blocking '
        'receive returns after exactly the number of sleep ticks the script needs (0 when deliverable) and never exhausts '
        'the budget; non-blocking calls never sleep. Non-trivial = close with messages queued followed by a receiving op, '
        'or self-close with messages pending, or a blocking receive that waited >= 1 tick; distinct by op list.')
ASSUMPTIONS = ['mido.ports.sleep is replaced by a counting fake that plays scripted device actions',
               'an IOPort whose inner device closes itself while the wrapper stays open is not asserted (unspecified)',
               'random.shuffle inside multi_receive is replaced by the identity']

LAST_TAGS = set()
RESET = [m.bytes() for m in ports_mod.reset_messages()] if hasattr(ports_mod, 'reset_messages') else []
RESET_REF = [[0xB0 | ch, cc, 0] for ch in range(16) for cc in (123, 121)]
PANIC_REF = [[0xB0 | ch, 120, 0] for ch in range(16)]


class ModelOSError(Exception):
    pass


class MDev:
    """Model of the device double."""

    def __init__(self, autoreset=False):
        self.wire = deque()
        self.parser_bytes = []
        self.queue = deque()
        self.closed = False
        self.sends = []
        self.closes = 0
        self.autoreset = autoreset
        self.fail_after = None
        self._p = mido.Parser()

    def pump(self):
        while self.wire:
            item = self.wire.popleft()
            if item == CLOSE:
                self.close()
                break
            self._p.feed(item)
            self.queue.extend(self._p)

    def close(self):
        if not self.closed:
            if self.autoreset:
                self.reset_sent = 0
                try:
                    for b in RESET_REF:
                        self.send(b)
                        self.reset_sent += 1
                except ModelOSError:
                    pass                # a device that fails during the reset is still released, exactly once
            self.closes += 1
            self.closed = True

    def send(self, b):
        if self.fail_after is not None:
            if self.fail_after <= 0:
                raise ModelOSError()
            self.fail_after -= 1
        self.sends.append(b)

    def poll(self):
        if self.queue:
            return self.queue.popleft()
        if self.closed:
            return None
        self.pump()
        if self.queue:
            return self.queue.popleft()
        return None


class World:
    """Real ports + model, for one port kind."""

    def __init__(self, kind, autoreset):
        self.kind = kind
        self.fake = FakeSleep(budget=40)
        if kind in ('device', 'device-direct'):
            # (a device whose _receive() returns the message directly behaves, seen from outside, like one that queues it)
            self.devs = [(Dev if kind == 'device' else DirectDev)('d', autoreset=autoreset)]
            self.mdevs = [MDev(autoreset)]
            self.port = self.devs[0]
            self.kind = kind = 'device'
        elif kind == 'ioport':
            self.devs = [Dev('in'), Dev('out', autoreset=True)]
            self.mdevs = [MDev(False), MDev(True)]
            self.port = ports_mod.IOPort(self.devs[0], self.devs[1])
        elif kind == 'echo':
            self.devs = []
            self.mdevs = []
            self.port = ports_mod.EchoPort()
        elif kind in ('multi', 'multi-gen', 'multi-yield'):
            self.devs = [Dev('a'), Dev('b')]
            self.mdevs = [MDev(), MDev()]
            self.yield_ports = kind == 'multi-yield'
            # ("ports" may be any iterable; a generator can be walked only once)
            self.port = ports_mod.MultiPort(self.devs if kind != 'multi-gen' else (d for d in self.devs),
                                            yield_ports=self.yield_ports)
            self.kind = kind = 'multi'
        else:
            raise KeyError(kind)
        self.mclosed = False           # model: the port under test is closed
        self.mqueue = deque()          # model: own queue of echo / multi ports
        self.script = deque()          # future actions, one per sleep tick

    # ---- model helpers ----
    def apply(self, action, real=True, model=True):
        a = action[0]
        item = list(action[2]) if a == 'arrive' else CLOSE
        di = action[1] if a == 'arrive' else 0
        if real:
            self.devs[di].wire.append(item if item == CLOSE else list(item))
        if model:
            self.mdevs[di].wire.append(item if item == CLOSE else list(item))

    def m_poll(self):
        k = self.kind
        if k == 'device':
            return self.mdevs[0].poll()
        if k == 'ioport':
            return self.mdevs[0].poll()
        if k == 'echo':
            return self.mqueue.popleft() if self.mqueue else None
        if self.mqueue:
            return self.mqueue.popleft()
        if self.mclosed:
            return None
        for d in self.mdevs:
            if not d.closed:
                while True:
                    m = d.poll()
                    if m is None:
                        break
                    self.mqueue.append((self.mdevs.index(d), m) if getattr(self, 'yield_ports', False) else m)
        return self.mqueue.popleft() if self.mqueue else None

    def m_input_closed(self):
        if self.kind == 'device':
            return self.mdevs[0].closed
        if self.kind == 'ioport':
            return self.mdevs[0].closed
        return self.mclosed

    def snapshot(self):
        import copy
        return copy.deepcopy((self.mdevs, self.mqueue, self.script, self.mclosed))

    def restore(self, snap):
        self.mdevs, self.mqueue, self.script, self.mclosed = snap

    def m_receive_block(self):
        """Model of a blocking receive; consumes model state and script (model side only).
        Returns ('msg', m, ticks) | ('raise', ticks) | ('forever',)."""
        ticks = 0
        q = self.mqueue if self.kind in ('echo', 'multi') else self.mdevs[0].queue
        if q:
            return ('msg', q.popleft(), 0)
        if self.m_input_closed():
            return ('raise', 0)
        while True:
            m = self.m_poll()
            if m is not None:
                return ('msg', m, ticks)
            if self.m_input_closed():
                return ('raise', ticks)
            if not self.script:
                return ('forever',)
            ticks += 1
            self.apply(self.script.popleft(), real=False, model=True)

    def m_iterate(self):
        """Model of `for msg in port`: (messages, ticks) or None when it would never end."""
        out = []
        ticks = 0
        for _ in range(500):
            r = self.m_receive_block()
            if r[0] == 'forever':
                return None
            if r[0] == 'raise':
                return out, ticks + r[1]
            out.append(r[1])
            ticks += r[2]
        return None


def msg_bytes(k):
    return note(k).bytes()


class Interp:
    def __init__(self, kind, autoreset):
        self.w = World(kind, autoreset)
        self.kind = self.w.kind
        self.fails = []
        self.nt = False
        self.tags = set()
        self._closed_with_queue = False

    def _fail(self, clause, detail, **facts):
        self.fails.append(fail(clause, f'{detail}', kind=self.kind, **facts))

    def _call(self, fn, script=()):
        """Run a real port call under the fake sleep, which plays `script` on the REAL devices, one action per tick.
        Returns (outcome, number of sleeps)."""
        w = self.w
        fake = FakeSleep(budget=40 + len(script))
        pending = deque(script)

        def tick():
            if pending:
                w.apply(pending.popleft(), real=True, model=False)
        fake.script = deque([tick] * (len(pending) + 1))
        with patched_sleep(fake):
            try:
                res = ('ok', fn())
            except SleepBudget:
                res = ('budget', None)
            except Exception as exc:  # noqa: BLE001
                res = ('exc', exc)
        # whatever the real run did not consume is played now so that real and model wires stay comparable
        self._unplayed = len(pending)
        return res, fake.count

    def _sync_check(self, op):
        """Device call logs must match the model after every operation."""
        w = self.w
        for i, (d, m) in enumerate(zip(w.devs, w.mdevs)):
            sends = [c[1].bytes() for c in d.calls if c[0] == 'send']
            closes = sum(1 for c in d.calls if c[0] == 'close')
            if closes != m.closes:
                self._fail('close-count', f'after {op}: device {i} _close called {closes} times, model {m.closes}',
                           op=op[0])
            if sends != m.sends:
                self._fail('device-sends', f'after {op}: device {i} got {len(sends)} sends {sends[-3:]}, model '
                                           f'{len(m.sends)} {m.sends[-3:]}', op=op[0])
            if d.closed != m.closed:
                self._fail('closed-flag', f'after {op}: device {i} closed={d.closed}, model {m.closed}', op=op[0])
            # reset messages come before the device is released
            if m.autoreset and closes:
                idx = [j for j, c in enumerate(d.calls) if c[0] == 'close'][0]
                k = getattr(m, 'reset_sent', 32)
                tail = [c[1].bytes() for c in d.calls[max(0, idx - k):idx] if c[0] == 'send']
                if tail != RESET_REF[:k]:
                    self._fail('reset-before-close', f'after {op}: the {k} reset messages the device accepted do not '
                                                     f'directly precede _close', op=op[0])
        if w.port.closed != (w.mclosed if self.kind != 'device' else w.mdevs[0].closed):
            self._fail('closed-flag', f'after {op}: port.closed={w.port.closed}', op=op[0])

    def _m_close(self):
        w = self.w
        pending = (len(w.mqueue) if self.kind in ('echo', 'multi') else len(w.mdevs[0].queue))
        if self.kind == 'device':
            w.mdevs[0].close()
        elif self.kind == 'ioport':
            if not w.mclosed:
                w.mdevs[0].close()
                w.mdevs[1].close()
        w.mclosed = True
        if pending:
            self._closed_with_queue = True
            self.tags.add('close-with-messages-queued')

    def step(self, op):
        w = self.w
        kind = op[0]
        port = w.port
        if kind == 'arrive':
            if not w.devs:
                return
            di = op[1] % len(w.devs)
            w.apply(['arrive', di, op[2]])
        elif kind == 'eof':
            if self.kind != 'device':
                return
            pending = len(w.mdevs[0].queue) + len(w.mdevs[0].wire)
            w.apply(['eof', 0])
            if pending:
                self.nt = True
                self.tags.add('self-close-with-messages-pending')
        elif kind == 'multi_fn':
            # the public helpers mido.ports.multi_send / multi_iter_pending / multi_receive over the raw device list
            if self.kind != 'multi':
                return
            self.tags.add('multi-helper-functions')
            which = op[1]
            if which == 'send':
                m = note(op[2])
                res, sleeps = self._call(lambda: ports_mod.multi_send(w.devs, m))
                failed = False
                try:
                    for d in w.mdevs:
                        if d.closed:
                            raise ModelOSError('closed')
                        d.send(m.bytes())
                except ModelOSError:
                    failed = True
                if failed != (res[0] == 'exc'):
                    self._fail('multi_send', f'multi_send gave {res}, model says failed={failed}')
            else:
                want = []
                for di, d in enumerate(w.mdevs):
                    if not d.closed:
                        while True:
                            mm = d.poll()
                            if mm is None:
                                break
                            want.append((di, mm))
                if which == 'iter_pending':
                    res, sleeps = self._call(lambda: list(ports_mod.multi_iter_pending(w.devs)))
                    exp = [mm for _, mm in want]
                else:
                    res, sleeps = self._call(lambda: list(ports_mod.multi_receive(w.devs, yield_ports=True, block=False)))
                    exp = [(w.devs[di], mm) for di, mm in want]
                if res[0] != 'ok' or len(res[1]) != len(exp) or any(not (a == b) for a, b in zip(res[1], exp)):
                    self._fail('multi-helper', f'{which}: got {res}, expected {exp}')
                if sleeps:
                    self._fail('nonblocking-sleeps', f'multi_{which} slept {sleeps} times')
        elif kind == 'heal':
            for d, m in zip(w.devs, w.mdevs):
                d.fail_after = None
                m.fail_after = None
        elif kind == 'fail_sends':
            self.tags.add('device-send-failure-injected')
            if not w.devs:
                return
            di = op[1] % len(w.devs)
            w.devs[di].fail_after = op[2]
            w.mdevs[di].fail_after = op[2]
        elif kind == 'script':
            acts = []
            for a in op[1]:
                if a[0] == 'eof' and self.kind != 'device':
                    continue
                if not w.devs:
                    continue
                acts.append(['arrive', a[1] % len(w.devs), a[2]] if a[0] == 'arrive' else ['eof', 0])
            w.script = deque(acts)
        elif kind == 'send':
            closed = w.mclosed if self.kind != 'device' else w.mdevs[0].closed
            m = note(op[1])
            res, sleeps = self._call(lambda: port.send(m))
            if closed:
                if res[0] != 'exc' or not isinstance(res[1], ValueError):
                    self._fail('send-after-close', f'send on a closed port: {res}')
            else:
                failed = False
                try:
                    if self.kind == 'device':
                        w.mdevs[0].send(m.bytes())
                    elif self.kind == 'ioport':
                        w.mdevs[1].send(m.bytes())
                    elif self.kind == 'echo':
                        w.mqueue.append(m)
                    else:
                        for d in w.mdevs:
                            if not d.closed:
                                d.send(m.bytes())
                except ModelOSError:
                    failed = True
                if failed:
                    if res[0] != 'exc' or not isinstance(res[1], OSError):
                        self._fail('send-device-error', f'device raised OSError in _send but send() gave {res}')
                elif res[0] != 'ok':
                    self._fail('send-raises', f'{res[1]!r}', exc=exc_sig(res[1]) if res[0] == 'exc' else 'budget')
            if sleeps:
                self._fail('send-sleeps', f'send slept {sleeps} times')
        elif kind in ('reset', 'panic'):
            closed = w.mclosed if self.kind != 'device' else w.mdevs[0].closed
            res, sleeps = self._call(getattr(port, kind))
            failed = False
            if not closed:
                ref = RESET_REF if kind == 'reset' else PANIC_REF
                try:
                    for b in ref:
                        targets = {'device': [0], 'ioport': [1], 'echo': [], 'multi': [i for i, d in enumerate(w.mdevs)
                                                                                       if not d.closed]}[self.kind]
                        if self.kind == 'echo':
                            w.mqueue.append(mido.Message.from_bytes(b))
                        for i in targets:
                            w.mdevs[i].send(b)
                except ModelOSError:
                    failed = True
            if failed:
                if res[0] != 'exc' or not isinstance(res[1], OSError):
                    self._fail(f'{kind}-device-error', f'device raised OSError but {kind}() gave {res}')
            elif res[0] != 'ok':
                self._fail(f'{kind}-raises', f'{res}')
        elif kind == 'poll':
            want = w.m_poll()
            res, sleeps = self._call(port.poll)
            self._cmp_msg('poll', res, want, sleeps, 0)
            if want is not None and self._closed_with_queue:
                self.nt = True
        elif kind == 'iter_pending':
            want = []
            while True:
                m = w.m_poll()
                if m is None:
                    break
                want.append(m)
                if len(want) > 100000:
                    break
            res, sleeps = self._call(lambda: list(port.iter_pending()))
            if res[0] == 'ok':
                res = ('ok', [self._norm(x) for x in res[1]])
            if res[0] != 'ok' or len(res[1]) != len(want) or any(not (a == b) for a, b in zip(res[1], want)):
                self._fail('iter_pending', f'got {res}, expected {want}')
            if sleeps:
                self._fail('nonblocking-sleeps', f'iter_pending slept {sleeps} times')
            if want and self._closed_with_queue:
                self.nt = True
        elif kind == 'receive':
            snap = w.snapshot()
            pred = w.m_receive_block()
            if pred[0] == 'forever':
                w.restore(snap)
                return                      # would legitimately block: not enabled
            real_script = list(snap[2])[:len(snap[2]) - len(w.script)]
            want = pred
            res, sleeps = self._call(port.receive, real_script)
            if want[0] == 'msg':
                self._cmp_msg('receive', res, want[1], sleeps, want[2])
                self.tags.add('blocking-receive-waited' if want[2] >= 1 else 'blocking-receive-immediate')
                if want[2] >= 1 or self._closed_with_queue:
                    self.nt = True
            else:
                self.tags.add('blocking-receive-on-closed-or-closing')
                if res[0] == 'budget':
                    self._fail('blocks-forever', 'blocking receive on a closed / closing port never returned')
                elif res[0] != 'exc' or not isinstance(res[1], (OSError, ValueError)):
                    self._fail('receive-closed', f'blocking receive on a closed port with nothing pending: {res}')
                elif sleeps != want[1]:
                    self._fail('sleep-count', f'receive raised after {sleeps} sleeps, script needs {want[1]}')
            self._flush_unplayed(real_script)
        elif kind == 'iterate':
            if self.kind == 'echo':
                want = []
                while w.mqueue:
                    want.append(w.mqueue.popleft())
                ticks = 0
                real_script = []
            else:
                snap = w.snapshot()
                r = w.m_iterate()
                if r is None:
                    w.restore(snap)
                    return                  # full iteration can only end by closure: not enabled
                want, ticks = r
                real_script = list(snap[2])[:len(snap[2]) - len(w.script)]
            res, sleeps = self._call(lambda: list(port), real_script)
            if res[0] == 'exc':
                self._fail('iteration-raises', f'for-loop over the port ended with {res[1]!r} after closure',
                           exc=exc_sig(res[1]))
            elif res[0] == 'budget':
                self._fail('blocks-forever', 'iteration did not stop after the port closed')
            else:
                res = ('ok', [self._norm(x) for x in res[1]])
                if len(res[1]) != len(want) or any(not (a == b) for a, b in zip(res[1], want)):
                    self._fail('iteration-messages', f'iteration yielded {res[1]}, expected {want}')
                elif sleeps != ticks:
                    self._fail('sleep-count', f'iteration slept {sleeps} times, script needs {ticks}')
                if want:
                    self.nt = True
                self.tags.add('iteration-ended-by-closure')
            self._flush_unplayed(real_script)
        elif kind == 'close':
            self._m_close()
            res, sleeps = self._call(port.close)
            if res[0] != 'ok':
                self._fail('close-raises', f'{res}')
        elif kind == 'with':
            self._m_close()

            class Boom(Exception):
                pass
            raising = len(op) > 1 and op[1]

            def body():
                with port as p:
                    if p is not port:
                        raise AssertionError('__enter__ returned another object')
                    if raising:
                        raise Boom('raised by the body of the with block')
                return 'left normally'
            res, sleeps = self._call(body)
            if raising:
                # the port is closed on the way out and the caller's exception is the caller's: it propagates
                if res[0] != 'exc' or not isinstance(res[1], Boom):
                    self._fail('with-swallows', f'an exception raised inside "with port:" did not propagate: {res}')
            elif res[0] != 'ok':
                self._fail('with-raises', f'{res}')
        else:
            raise KeyError(kind)
        # keep the real script in step with the model's (the real run consumed the same number of ticks)
        self._sync_check(op)

    def _norm(self, x):
        """(port, message) pairs of a yield_ports MultiPort become (device index, message), as in the model."""
        if isinstance(x, tuple) and len(x) == 2 and x[0] in self.w.devs:
            return (self.w.devs.index(x[0]), x[1])
        return x

    def _flush_unplayed(self, real_script):
        n = getattr(self, '_unplayed', 0)
        for a in list(real_script)[len(real_script) - n:] if n else []:
            self.w.apply(a, real=True, model=False)
        self._unplayed = 0

    def _cmp_msg(self, what, res, want, sleeps, want_sleeps):
        if res[0] == 'budget':
            self._fail('blocks-forever', f'{what}: fake-sleep budget exhausted although a message is / becomes deliverable')
            return
        if res[0] == 'exc':
            self._fail(f'{what}-raises', f'{res[1]!r} (expected {want!r})', exc=exc_sig(res[1]))
            return
        got = self._norm(res[1])
        if (got is None) != (want is None) or (got is not None and not (got == want)):
            self._fail(f'{what}-result', f'{what} returned {got!r}, expected {want!r}')
        elif sleeps != want_sleeps:
            self._fail('sleep-count' if want_sleeps else 'nonblocking-sleeps',
                       f'{what} slept {sleeps} times, expected {want_sleeps}')


def check_gc(case):
    """A port that goes out of scope is closed like by close(): device released exactly once, reset messages first."""
    import gc
    out = []
    ar = case.get('autoreset', False)
    dev = Dev('g', autoreset=ar)
    calls = dev.calls
    for i in range(case.get('sends', 0)):
        dev.send(note(i))
    if case.get('close_first'):
        dev.close()
    wrapper = ports_mod.IOPort(dev, dev) if case.get('wrap') else None
    del dev
    if wrapper is not None:
        del wrapper
    gc.collect()
    closes = sum(1 for c in calls if c[0] == 'close')
    sends = [c[1].bytes() for c in calls if c[0] == 'send']
    want_sends = [note(i).bytes() for i in range(case.get('sends', 0))] + (RESET_REF if ar else [])
    if closes != 1:
        out.append(fail('gc-close-count', f'port dropped by the caller: _close called {closes} times ({case})'))
    if sends != want_sends:
        out.append(fail('gc-reset', f'port dropped by the caller: device got {len(sends)} sends, expected {len(want_sends)}'))
    return out


class SendOverridePort(ports_mod.BaseOutput):
    """Output port written the way mido's own rtmidi backend writes it: send() itself is overridden (to bypass the
    lock), _send() is the inherited no-op."""
    _locking = False

    def _open(self, **kwargs):
        self.calls = []

    def send(self, msg):
        if self.closed:
            raise ValueError('send() called on closed port')
        self.calls.append(('send', msg.bytes()))

    def _close(self):
        self.calls.append(('close',))


def check_sendoverride(case):
    out = []
    port = SendOverridePort('o', autoreset=case.get('autoreset', False))
    calls = port.calls
    want = []
    for op in case['ops']:
        if op == 'send':
            if port.closed:
                continue
            port.send(note(7))
            want.append(('send', note(7).bytes()))
        elif op in ('reset', 'panic'):
            if not port.closed:
                want += [('send', b) for b in (RESET_REF if op == 'reset' else PANIC_REF)]
            getattr(port, op)()
        elif op == 'close':
            was_open = not port.closed
            port.close()
            if was_open:
                if case.get('autoreset'):
                    want += [('send', b) for b in RESET_REF]
                want.append(('close',))
    if calls != want:
        out.append(fail('send-override-port', f'{case}: device saw {len(calls)} calls {calls[-3:]}, expected {len(want)} '
                                              f'{want[-3:]}'))
    return out


def check_volume(case):
    n = case['n']
    out = []
    fake = FakeSleep(budget=10)
    with patched_sleep(fake):
        if case['port'] == 'echo':
            port = ports_mod.EchoPort()
            for i in range(n):
                port.send(note(i, ch=i // 128))
        elif case['port'] == 'multi':
            subs = [ports_mod.EchoPort(), ports_mod.EchoPort()]
            port = ports_mod.MultiPort(subs, yield_ports=case.get('yield_ports', False))
            for i in range(n):
                subs[i % 2].send(note(i, ch=i // 128))
        else:
            port = Dev('v')
            port.wire.append([b for i in range(n) for b in note(i, ch=i // 128).bytes()])
        got = []
        how = case.get('how', 'iter_pending')
        try:
            if how == 'iter_pending':
                got = list(port.iter_pending())
            elif how == 'poll':
                while True:
                    m = port.poll()
                    if m is None:
                        break
                    got.append(m)
            else:
                for _ in range(n):
                    got.append(port.receive())
        except SleepBudget:
            out.append(fail('blocks-forever', f'{how} over a backlog of {n} messages kept sleeping'))
        if case['port'] == 'multi' and case.get('yield_ports'):
            got = [m for _, m in got]
        key = sorted((m.channel, m.note) for m in got) if case['port'] == 'multi' else [(m.channel, m.note) for m in got]
        want = [((i // 128) % 16, i % 128) for i in range(n)]
        if key != (sorted(want) if case['port'] == 'multi' else want):
            out.append(fail('backlog', f'{case}: {len(got)} of {n} messages came out (or in the wrong order)'))
        port.close()
    return out


def check_closed_child(case):
    """A MultiPort one of whose sub-ports was closed earlier (round 14: the loop that skips closed sub-ports replaced by a
    helper that does not): close() still works any number of times, releases once, and with autoreset every OPEN
    sub-port gets the reset messages exactly once; afterwards send raises ValueError."""
    class Dev(ports_mod.BaseIOPort):
        def _open(self, **kwargs):
            self.sent = []

        def _send(self, msg):
            self.sent.append(msg)

    n, k, ar = case['n'], case['closed'], case['autoreset']
    devs = [Dev(f'd{i}') for i in range(n)]
    for i in k:
        devs[i].close()
    mp = ports_mod.MultiPort(devs)
    mp.autoreset = ar
    releases = []
    orig = mp._close
    mp._close = lambda: (releases.append(1), orig())
    out = []
    try:
        for _ in range(case.get('sends', 0)):
            mp.send(mido.Message('clock'))
    except Exception:  # noqa: BLE001
        pass        # what a send before close() does with a closed sub-port is not C11's business (C10 covers delivery)
    for d in devs:
        del d.sent[:]
    for i in range(3):
        try:
            mp.close()
        except Exception as exc:  # noqa: BLE001
            out.append(fail('close-raises', f'{case}: close() #{i + 1}: {exc!r}', exc=exc_sig(exc)))
    if not mp.closed or len(releases) != 1:
        out.append(fail('close-release', f'{case}: closed={mp.closed}, released {len(releases)} times'))
    want = [bytes(m.bytes()) for m in ports_mod.reset_messages()] if ar else []
    for i, d in enumerate(devs):
        got = [bytes(m.bytes()) for m in d.sent]
        if got != ([] if i in k else want):
            out.append(fail('reset-once', f'{case}: sub-port {i} ({"closed" if i in k else "open"}) got {len(got)} messages '
                                          f'during close, expected {0 if i in k else len(want)}'))
            break
    try:
        mp.send(mido.Message('clock'))
        out.append(fail('send-after-close', f'{case}: send after close() did not raise'))
    except ValueError:
        pass
    except Exception as exc:  # noqa: BLE001
        out.append(fail('send-after-close', f'{case}: send after close() raised {exc!r}', exc=exc_sig(exc)))
    mp.autoreset = False
    for d in devs:
        d.closed = True
    return out


def run_case(case):
    LAST_TAGS.clear()
    if case['kind'] == 'closed-child':
        return check_closed_child(case)
    if case['kind'] == 'gc':
        return check_gc(case)
    if case['kind'] == 'volume':
        return check_volume(case)
    if case['kind'] == 'sendoverride':
        return check_sendoverride(case)
    if case['kind'] in ('server', 'brokenpipe'):
        # a PortServer (MultiPort over accepted socket ports): blocking receive with a message waiting in a sub-port
        from checks import c18_sockets as C18
        return C18.run_case(case)
    it = Interp(case['kind'], case.get('autoreset', False))
    for op in case['ops']:
        it.step(op)
        if it.fails:
            break
    # nothing may keep references alive that close again at interpreter exit
    for d in it.w.devs:
        d.closed = True
    it.w.port.closed = True
    LAST_TAGS.update(it.tags)
    return it.fails


def nontrivial(case):
    if case['kind'] in ('gc', 'volume', 'sendoverride', 'closed-child'):
        return True
    if case['kind'] in ('server', 'brokenpipe'):
        return True
    it = Interp(case['kind'], case.get('autoreset', False))
    for op in case['ops']:
        it.step(op)
    for d in it.w.devs:
        d.closed = True
    it.w.port.closed = True
    return it.nt


# ---- generation --------------------------------------------------------------------------------------------------

_CTX = None
ARR = st.integers(0, 5).map(lambda k: msg_bytes(k))
SPLIT = st.sampled_from([[0xF0, 1], [2, 0xF7], [0x90, 5], [6]])


def make_machine(kind, autoreset):
    class PortMachine(RuleBasedStateMachine):
        def __init__(self):
            super().__init__()
            self.ops = []

        @rule(k=st.integers(0, 5))
        def send(self, k):
            self.ops.append(['send', k])

        @rule()
        def poll(self):
            self.ops.append(['poll'])

        @rule()
        def receive(self):
            self.ops.append(['receive'])

        @rule()
        def iter_pending(self):
            self.ops.append(['iter_pending'])

        @rule()
        def iterate(self):
            self.ops.append(['iterate'])

        @rule()
        def close(self):
            self.ops.append(['close'])

        @rule()
        def with_block_raising(self):
            self.ops.append(['with', True])

        @rule()
        def with_block(self):
            self.ops.append(['with'])

        @rule(which=st.sampled_from(['reset', 'panic']))
        def reset(self, which):
            self.ops.append([which])

        @rule(di=st.integers(0, 1), data=st.one_of(ARR, ARR, SPLIT))
        def arrive(self, di, data):
            self.ops.append(['arrive', di, data])

        @rule()
        def eof(self):
            self.ops.append(['eof'])

        @rule(pre=st.lists(SPLIT, max_size=2), di=st.integers(0, 1), data=ARR, then_eof=st.booleans())
        def wait_for_message(self, pre, di, data, then_eof):
            # a blocking receive that has to sit through some ticks (partial bytes first) until a whole message is there
            acts = [['arrive', di, p] for p in pre] + [['arrive', di, data]] + ([['eof']] if then_eof else [])
            self.ops.append(['iter_pending'])
            self.ops.append(['script', acts])
            self.ops.append(['receive'])

        @rule(di=st.integers(0, 1), k=st.sampled_from([0, 1, 5, 31, 32, 40]))
        def device_starts_failing(self, di, k):
            self.ops.append(['fail_sends', di, k])

        @rule()
        def device_recovers(self):
            self.ops.append(['heal'])

        @rule(which=st.sampled_from(['send', 'iter_pending', 'receive']), k=st.integers(0, 5))
        def multi_helper(self, which, k):
            self.ops.append(['multi_fn', which, k])

        @rule(acts=st.lists(st.one_of(st.tuples(st.just('arrive'), st.integers(0, 1), st.one_of(ARR, SPLIT)).map(list),
                                      st.just(['eof'])), max_size=4))
        def script(self, acts):
            self.ops.append(['script', acts])

        def teardown(self):
            unknown = _CTX.run_tagged({'kind': kind, 'autoreset': autoreset, 'ops': self.ops})
            if unknown:
                raise Violation(unknown[0]['sig'])

    return PortMachine


KINDS = [('device', False), ('device', True), ('device-direct', False), ('device-direct', True), ('echo', False), ('ioport', False), ('multi', False), ('multi-gen', False),
         ('multi-yield', False)]


def machine_shard(rec, shard):
    global _CTX
    _CTX = rec
    idx, k, n, steps = shard
    kind, ar = KINDS[idx]
    rec.machine(make_machine(kind, ar), n, steps, label=f'{kind}', seed_offset=idx * 50 + k)


def enum_selfclose(rec, shard):
    """Every position of the device's self-closure among 0-3 arrivals, x every drain method, x autoreset."""
    ar = shard
    for n in range(0, 4):
        for pos in range(0, n + 1):
            for pre in range(0, n + 1):         # how many arrivals are polled into the queue before draining
                for drain, prepoll in [(d, q) for d in ('iterate', 'receive', 'poll', 'iter_pending')
                                       for q in ((False, True) if pre else (False,))]:
                    ops = []
                    items = [['arrive', 0, msg_bytes(i)] for i in range(n)]
                    items.insert(pos, ['eof'])
                    now, later = items[:pre + 1], items[pre + 1:]
                    ops += now
                    if prepoll:
                        ops.append(['poll'])        # some of it is taken into the queue before the drain starts
                    ops.append(['script', later])
                    if drain == 'iterate':
                        ops.append(['iterate'])
                    else:
                        ops += [[drain]] * (n + 2)
                    ops += [['close'], ['close'], ['send', 1], ['poll'], ['iterate']]
                    rec.check({'kind': 'device', 'autoreset': ar, 'ops': ops}, distinct=False,
                              sample=(n == 2 and pos == 1 and pre == 0 and drain == 'iterate'))
                    rec.check({'kind': 'device-direct', 'autoreset': ar, 'ops': ops}, distinct=False, sample=False)


def enum_failing_reset(rec, shard):
    """The device starts failing after k sends, for every k around the 32 reset messages; then close (twice)."""
    for kind, ar in (('device', True), ('ioport', False)):
        for k in list(range(0, 34)):
            for pre in (0, 2):
                ops = [['send', i] for i in range(pre)] + [['fail_sends', 1 if kind == 'ioport' else 0, k],
                                                           ['close'], ['close'], ['with'], ['send', 1], ['poll']]
                rec.check({'kind': kind, 'autoreset': ar, 'ops': ops}, sample=(k == 5 and pre == 0))


def main(ctx):
    from checks import c18_sockets as C18
    for case in C18.server_cases(ctx.tier):
        if case.get('late_send') and case['drain'] == 'receive':
            ctx.check(case, classes=('portserver-blocking-receive',), sample=False)
    for ar in (False, True):
        for sends in (0, 2):
            for close_first in (False, True):
                for wrap in (False, True):
                    ctx.check({'kind': 'gc', 'autoreset': ar, 'sends': sends, 'close_first': close_first, 'wrap': wrap},
                              sample=False)
    for ar in (False, True):
        for ops in (['close'], ['send', 'close', 'close'], ['reset', 'close'], ['panic', 'send', 'reset', 'close'],
                    ['close', 'reset', 'panic', 'close']):
            ctx.check({'kind': 'sendoverride', 'autoreset': ar, 'ops': ops}, sample=False)
    for ar in (False, True):
        for n, closed in ((3, [1]), (3, [0]), (3, [2]), (2, [0, 1]), (4, [1, 2]), (1, [])):
            for sends in (0, 2):
                ctx.check({'kind': 'closed-child', 'n': n, 'closed': closed, 'autoreset': ar, 'sends': sends},
                          classes=('multiport-closed-sub-port',), sample=(n == 3 and closed == [1] and ar and sends == 2))
    for port in ('echo', 'device', 'multi'):
        for how in ('iter_pending', 'poll', 'receive'):
            ctx.check({'kind': 'volume', 'port': port, 'n': 5000, 'how': how}, sample=False)
    ctx.check({'kind': 'volume', 'port': 'multi', 'n': 3000, 'how': 'receive', 'yield_ports': True}, sample=False)
    ctx.check({'kind': 'volume', 'port': 'echo', 'n': 140000, 'how': 'iter_pending'}, sample=False)
    ctx.check({'kind': 'volume', 'port': 'device', 'n': 70000, 'how': 'poll'}, sample=False)
    for case in C18.brokenpipe_cases():
        ctx.check(case, classes=('socket-port-broken-pipe-in-send',), sample=False)
    # a long silence before the message: a blocking receive returns at the very tick the message is deliverable,
    # however long it has been waiting (empty arrivals are ticks on which nothing happens)
    for kind in ('device', 'device-direct', 'ioport', 'multi'):
        for delay in (1022, 1023, 1024, 1025, 1500, 3000):
            for tail in ([['receive']], [['iterate']]):
                script = [['arrive', 0, []]] * delay + [['arrive', 0, msg_bytes(1)]] + ([['eof']] if tail == [['iterate']] and
                                                                                        kind == 'device' else [])
                if tail == [['iterate']] and kind != 'device':
                    continue
                ctx.check({'kind': kind, 'autoreset': False, 'ops': [['script', script]] + tail + [['close']]},
                          classes=('long-wait',), sample=False)
    ctx.pmap('enum_failing_reset', [0])
    ctx.pmap('enum_selfclose', [False, True])
    n = 500 if ctx.tier == 'quick' else 6000
    steps = 25 if ctx.tier == 'quick' else 40
    shards = []
    for idx in range(len(KINDS)):
        for k in range(2 if ctx.tier == 'quick' else 3):
            shards.append((idx, k, n, steps))
    ctx.pmap('machine_shard', shards)
