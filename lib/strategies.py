"""Hypothesis strategies producing JSON-friendly case material (dicts/lists), built by construction."""
from hypothesis import strategies as st

from . import refmidi as R

EDGE7 = [0, 1, 0x3F, 0x40, 0x7E, 0x7F]
EDGE = {
    'channel': [0, 1, 7, 8, 14, 15],
    'frame_type': [0, 1, 3, 4, 7],
    'frame_value': [0, 1, 7, 8, 15],
    'pitch': [-8192, -8191, -129, -128, -127, -2, -1, 0, 1, 127, 128, 129, 8190, 8191],
    'pos': [0, 1, 127, 128, 129, 255, 256, 16382, 16383],
}


def attr_value(name):
    lo, hi = R.RANGES[name]
    edges = EDGE.get(name, EDGE7)
    return st.one_of(st.sampled_from(edges), st.integers(lo, hi))


def sysex_payload(max_size=300):
    sizes = st.one_of(st.sampled_from([0, 1, 2, 3, 126, 127, 128, 129]), st.integers(0, max_size))
    return sizes.flatmap(lambda n: st.lists(st.one_of(st.sampled_from(EDGE7), st.integers(0, 127)),
                                            min_size=n, max_size=n))


def times():
    return st.one_of(
        st.sampled_from([0, 1, -1, 127, 128, 2 ** 31, 2 ** 63, 2 ** 64 + 1, -2 ** 70, 0.0, -0.0, 0.5, 1.0, -1.5,
                         1e-300, 5e-324, 1.7976931348623157e308, 1e22, 0.1, 123456.789]),
        st.integers(-2 ** 40, 2 ** 40),
        st.floats(allow_nan=False, allow_infinity=False),
    )


def small_times():
    return st.one_of(st.sampled_from([0, 0, 1, 2, 10, 480]), st.integers(0, 1000))


def msg_dict(types=None, time=None, max_sysex=300):
    """A valid message as a reference dict."""
    types = list(types or R.ALL_TYPES)
    time = time if time is not None else times()

    def build(t):
        fields = {n: (sysex_payload(max_sysex) if n == 'data' else attr_value(n)) for n in R.attr_names(t)}
        return st.fixed_dictionaries({'type': st.just(t), **fields, 'time': time})
    return st.sampled_from(types).flatmap(build)


NON_REALTIME = [t for t in R.ALL_TYPES if t not in R.REALTIME]

# one representative per byte class (see DESIGN C04)
CLASS_ALPHABET = [0x00, 0x7F, 0x90, 0xC5, 0xE3, 0xF0, 0xF1, 0xF2, 0xF4, 0xF6, 0xF7, 0xF8, 0xF9, 0xFF]
STATUS_REPS = [0x80, 0x9F, 0xA3, 0xB0, 0xC5, 0xD1, 0xE3, 0xF0, 0xF1, 0xF2, 0xF3, 0xF4, 0xF5, 0xF6, 0xF7, 0xF8, 0xF9,
               0xFA, 0xFB, 0xFC, 0xFD, 0xFE, 0xFF]


def byte_stream(max_chunks=30):
    """Byte streams mixing valid encodings, cut-short encodings, class-alphabet bytes and arbitrary bytes."""
    enc = msg_dict(time=st.just(0), max_sysex=12).map(R.ref_encode)
    cut = enc.flatmap(lambda e: st.integers(0, len(e)).map(lambda k: e[:k]))
    junk = st.lists(st.one_of(st.sampled_from(CLASS_ALPHABET), st.sampled_from(STATUS_REPS), st.integers(0, 255)),
                    min_size=1, max_size=4)
    piece = st.one_of(enc, enc, cut, junk)
    return st.lists(piece, max_size=max_chunks).map(lambda ps: [b for p in ps for b in p])


# ---- meta messages, tracks, files --------------------------------------------------------------------------------
from . import refmeta as M  # noqa: E402

DELTAS = [0, 0, 0, 1, 2, 10, 96, 127, 128, 129, 480, 16383, 16384, 2097151, 2097152, 268435455]


def deltas(big=True):
    if big:
        return st.one_of(st.sampled_from(DELTAS), st.integers(0, 1000), st.integers(0, 0x0FFFFFFF))
    return st.one_of(st.sampled_from([0, 0, 0, 1, 2, 3, 10, 96, 480]), st.integers(0, 2000))


def latin1_text(max_size=40):
    alpha = st.one_of(st.characters(min_codepoint=0x20, max_codepoint=0x7E),
                      st.sampled_from(['\x00', '\x7f', '\x80', '\xff', '\xe9', "'", '"', '\\', '\n', ' ', '{', '}', '%']),
                      st.characters(min_codepoint=0, max_codepoint=255))
    sizes = st.one_of(st.sampled_from([0, 1, 2]), st.integers(0, max_size))
    base = sizes.flatmap(lambda n: st.lists(alpha, min_size=n, max_size=n)).map(''.join)
    # C strings with their terminator, NUL padding, format-string look-alikes
    return st.one_of(base, base, base, base.map(lambda t: t + '\x00'), st.sampled_from(['\x00', 'ab\x00\x00', '{0}', '{verse 1}',
                                                                                      # texts that look like the repr of something
                                                                                      'Verse (x2), Chorus(x4)', 'see f(a), g(b)', "a', time=0), Message('x",
                                                                                      '), MetaMessage(', '[1, 2], [', 'x),\n  y(', 'MidiTrack([',
                                                                                      'intro}', '{{x}}', '%s %d', '\xef\xbb\xbfabc',
                                                                                      '\xef\xbb\xbf\xe6\xad\x8c \xc3\xa9', '\xff\xfeab', '\ufeffx'.encode('utf-8').decode('latin1')]))


def _edge_int(lo, hi):
    return st.one_of(st.sampled_from(sorted({lo, lo + 1, hi - 1, hi, (lo + hi) // 2})), st.integers(lo, hi))


def meta_dict(time=None, text=None, max_hours=31, types=None, eot=False):
    """A known meta message over its documented, round-trippable domain (as a dict)."""
    time = time if time is not None else deltas()
    text = text if text is not None else latin1_text()
    types = list(types or [t for t in M.META if eot or t != 'end_of_track'])

    def build(t):
        f = {}
        for name, _ in M.META[t][1]:
            if (t, name) in M.INT_RANGES:
                lo, hi = M.INT_RANGES[(t, name)]
                if name == 'hours':
                    hi = max_hours
                f[name] = _edge_int(lo, hi)
            elif t in M.TEXT_TYPES:
                f[name] = text
            elif name == 'denominator':
                f[name] = st.one_of(st.sampled_from([0, 1, 2, 3, 7, 8, 29, 31, 254, 255]), st.integers(0, 255)).map(
                    lambda k: 2 ** k)
            elif name == 'key':
                f[name] = st.sampled_from(sorted(M.KEYS))
            elif name == 'frame_rate':
                f[name] = st.sampled_from([24, 25, 29.97, 30])
            elif name == 'data':
                f[name] = st.lists(st.one_of(st.sampled_from([0, 1, 127, 128, 255]), st.integers(0, 255)), max_size=20)
        return st.fixed_dictionaries({'type': st.just(t), **f, 'time': time})
    return st.sampled_from(types).flatmap(build)


UNKNOWN_TYPE_BYTES = [b for b in range(0x80) if b not in M.KNOWN_TYPE_BYTES]


def unknown_meta_dict(time=None):
    time = time if time is not None else deltas()
    return st.fixed_dictionaries({
        'type': st.just('unknown_meta'),
        'type_byte': st.sampled_from(UNKNOWN_TYPE_BYTES),
        'data': st.lists(st.one_of(st.sampled_from([0, 127, 128, 255]), st.integers(0, 255)), max_size=20),
        'time': time})


def file_event(time=None, max_sysex=20):
    """One storable track event: channel / system common / sysex / known meta / unknown meta."""
    time = time if time is not None else deltas()
    return st.one_of(
        msg_dict(types=list(R.CHANNEL_TYPES), time=time),
        msg_dict(types=list(R.CHANNEL_TYPES), time=time),
        msg_dict(types=['quarter_frame', 'songpos', 'song_select', 'tune_request'], time=time),
        msg_dict(types=['sysex'], time=time, max_sysex=max_sysex),
        meta_dict(time=time),
        unknown_meta_dict(time=time),
    )


@st.composite
def track_dicts(draw, max_events=12, time=None, eot='mixed', syscommon=True, max_sysex=20):
    """A track as a list of message dicts, with running-status runs and breaks of such runs."""
    time = time if time is not None else deltas()
    out = []
    n = draw(st.integers(0, max_events))
    while len(out) < n:
        kind = draw(st.sampled_from(['run', 'run', 'event', 'event', 'eot']))
        if kind == 'run':
            run_types = list(R.CHANNEL_TYPES) * 3
            if syscommon:
                # adjacent equal-status system common messages: running status must NOT be applied to them
                run_types += ['quarter_frame', 'songpos', 'song_select', 'tune_request']
            base = draw(msg_dict(types=run_types, time=time))
            k = draw(st.integers(2, 4))
            for i in range(k):
                e = dict(base)
                e['time'] = draw(time)
                if draw(st.booleans()):
                    # vary a data field but keep the status byte
                    for name in R.attr_names(e['type']):
                        if name != 'channel':
                            e[name] = draw(attr_value(name))
                            break
                out.append(e)
                if i + 1 < k and draw(st.integers(0, 4)) == 0:
                    # break the run with something that must cancel running status
                    br = draw(st.one_of(meta_dict(time=time), msg_dict(types=['sysex'], time=time, max_sysex=4),
                                        unknown_meta_dict(time=time),
                                        msg_dict(types=['song_select', 'tune_request', 'songpos', 'quarter_frame'],
                                                 time=time) if syscommon else meta_dict(time=time)))
                    out.append(br)
        elif kind == 'event':
            e = draw(file_event(time=time, max_sysex=max_sysex))
            if not syscommon and e['type'] in ('quarter_frame', 'songpos', 'song_select', 'tune_request'):
                continue
            out.append(e)
        elif eot == 'mixed' and draw(st.integers(0, 3)) == 0:
            out.append({'type': 'end_of_track', 'time': draw(time)})
    if eot == 'mixed':
        tail = draw(st.sampled_from(['none', 'one', 'one', 'one-delta', 'two']))
        if tail in ('one', 'two'):
            out.append({'type': 'end_of_track', 'time': 0})
        if tail == 'two':
            out.append({'type': 'end_of_track', 'time': draw(time)})
        if tail == 'one-delta':
            out.append({'type': 'end_of_track', 'time': draw(time)})
    elif eot == 'final':
        out.append({'type': 'end_of_track', 'time': draw(time)})
    return out


@st.composite
def file_dicts(draw, max_tracks=4, max_events=12, time=None, eot='mixed', syscommon=True):
    ftype = draw(st.sampled_from([0, 1, 1, 2]))
    nt = 1 if ftype == 0 else draw(st.integers(0, max_tracks))
    tpb = draw(st.one_of(st.sampled_from([1, 2, 24, 96, 480, 960, 32767]), st.integers(1, 32767)))
    tracks = [draw(track_dicts(max_events=max_events, time=time, eot=eot, syscommon=syscommon)) for _ in range(nt)]
    return {'type': ftype, 'tpb': tpb, 'tracks': tracks}
