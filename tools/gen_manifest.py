#!/usr/bin/env python3
"""Regenerate MANIFEST.json from the table below (kept in one place so that it is always valid)."""
import json
import os

HERE = os.path.dirname(os.path.dirname(os.path.abspath(__file__)))

# pid -> (level, design_ref, technique, level text, level note)
CHECKS = {}


def add(pid, level, technique, text, note):
    CHECKS[pid] = dict(level=level, technique=technique, text=text, note=note)


TRUST = ('Trusted base: CPython 3.12, Hypothesis 6.168, the harness in lib/harness.py and the independent reference '
         'codecs in lib/ref*.py (written from the MIDI 1.0 / SMF specifications and the user documentation). Each check is '
         'repeated, reduced, in a child interpreter started as python -O -bb with mido warnings and ResourceWarnings as '
         'errors and an ASCII stdout (the property must not depend on those settings).')

add('C01', 'exploration', 'exhaustive enumeration of the finite message space + Hypothesis, reference-codec oracle',
    'Complete enumeration of all 1,331,463 non-sysex messages (both tiers) plus Hypothesis-drawn sysex payloads and '
    'times; every case is compared with an independent MIDI 1.0 encoder/decoder, so symmetric encoder/decoder errors '
    'are visible. Exhaustive for the finite part, sampled for sysex length/content and time values. Also: hex(sep) for arbitrary separator strings, encodings handed out are fresh objects, repeated decodes are independent; two threads converting different messages of one type under the deterministic scheduler, every placement of one preemption inside the codec modules.',
    TRUST + ' Sysex payloads beyond 100,000 bytes and NaN/inf times are not explored.')

add('C02', 'exploration', 'exhaustive enumeration of short byte strings + Hypothesis mutation, recogniser oracle',
    'thorough enumerates all 16,843,009 byte strings of length 0..3 (quick: lengths 0..2 complete, length 3..5 over '
    'boundary alphabets); Hypothesis mutates valid encodings and injects out-of-range / non-integer items; from_hex over '
    'spaced and malformed text. An independent single-message recogniser decides accept/reject and the exception type. Typed arrays and cast memoryviews are included as integer sequences.',
    TRUST + ' Strings longer than 3 bytes are sampled, not enumerated (sysex is the only unbounded case).')
add('C03', 'exploration', 'exhaustive attribute x value x entry-point grid + Hypothesis rule-based state machine, domain-table oracle',
    'The grid over every attribute of every type, a boundary/ill-typed value pool and every entry point is enumerated '
    'completely; a RuleBasedStateMachine explores histories of accepted and rejected operations on one object against a '
    'dict model, checking validity, unchanged state after rejection and immutability of type/attribute set after every step.',
    TRUST + ' Values outside the pool (other ill-typed objects) and bool are not generated.')
add('C04', 'exploration', 'exhaustive class-alphabet enumeration + Hypothesis streams, soundness invariants',
    'All strings over a 14-letter byte-class alphabet up to length 5 (quick) / 6 (thorough) plus long drawn streams '
    'through every parser entry point; invariants: no exception, valid messages, real-time one-to-one, other messages a '
    'subsequence of the input, parse() == head of parse_all(). Chunked bytes/bytearray feeding and repeatability of parsing are included.',
    TRUST + ' One representative per byte class stands for its class in the exhaustive part; drawn streams use all bytes.')
add('C05', 'exploration', 'Hypothesis rule-based state machine + exhaustive cut enumeration, prefix-model metamorphic oracle',
    'State machine over feed/feed_byte/get_message/pending/iteration (nested, abandoned, while feeding) for Parser and '
    'ParserQueue against the model "messages so far == parse_all(prefix fed)"; all single and double cuts of all 5,832 '
    'three-message streams. Also two feeder threads on a ParserQueue under the deterministic scheduler (all <= 1-preemption schedules): hand-out order == parser order; a bystander instance is fed in between. Volume cases (70,000 pending messages, a 70,000-byte sysex) have expectations known by construction.',
    TRUST + ' parse_all on whole input is the reference for drawn streams (held to C04/C06).')
add('C06', 'exploration', 'exhaustive prefix x message enumeration + Hypothesis, metamorphic oracle with reference encoder',
    'All class-alphabet prefixes up to length 3/4 and all proper prefixes of real encodings x all 18 types at two value '
    'settings; drawn prefixes/concatenations; real-time bytes at every interior position of sysex (1 and 2 insertions '
    'exhaustive, many drawn). Encodings come from the independent encoder. Every clause runs through list / bytes / generator / iterator / byte-wise (early and late retrieval) feeding; a 3000-message stream.',
    TRUST)
add('C07', 'exploration', 'Hypothesis file generation + byte mutation, round-trip / refusal / fixed-point oracles',
    'Generated files (all event kinds, running-status runs and breaks, VLQ-boundary deltas, end_of_track anywhere) are '
    'saved, reloaded and compared with the reference canonical form; injected unstorable items must be refused with '
    'ValueError; byte-mutated and non-canonically encoded files that load must be fixed points of load-save-load.',
    TRUST + ' A load that raises makes no claim. Known-finding classes of C09 (smpte hours > 31, list-valued '
    'sequencer data) are not generated here.')
add('C08', 'exploration', 'Hypothesis + independent strict SMF decoder / encoder (differential oracle in both directions)',
    'save() output is decoded by an independent strict decoder that flags every conformance problem and must reproduce '
    'the reference event list; reference-encoded alternative encodings (running status subsets, padded VLQs, long header) '
    'must load identically under debug x clip; corrupted data bytes exercise the clip clause.',
    TRUST + ' Deltas <= 0x0FFFFFFF; escape (F7) events are not generated.')
add('C09', 'exploration', 'exhaustive enumeration of finite meta domains + Hypothesis, reference payload codec',
    'Every value of the finite documented domains and boundary/outside values for the rest, through constructor and '
    'assignment; byte layout compared with an independent payload encoder, from_bytes and track reading must give back '
    'an equal message; outside values must be rejected. Two recorded findings (KF-C09-c, KF-C09-d) are excluded by '
    'construction and counted.',
    TRUST + ' Text is latin-1 here; charsets are C17.')

add('C10', 'exploration', 'harness-owned deterministic thread scheduler: exhaustive bounded-preemption schedule enumeration + Hypothesis-drawn schedules, history-invariant oracle',
    'Real threads run under lib/sched.py, which owns the interleaving at statement granularity (one runnable thread, '
    'yield at every traced line, cooperative RLock shim, sleep = forced yield). For a fixed set of small programs over '
    'every port kind every schedule with <= 1 preemption (quick) / <= 2 preemptions (thorough; windowed for the longest '
    'programs) and every starting thread is enumerated; larger programs and dense random schedules are drawn by '
    'Hypothesis. The history is judged by exactly-once / intact / per-sender order / copy / termination invariants. Port kinds include an output device shared by two IOPort wrappers and direct senders, and a ParserQueue whose hand-out order is compared with the order its parser produced.',
    TRUST + ' Also trusted: the scheduler itself. Switches inside a single statement are not explored; schedule '
    'enumeration is bounded (preemption bound, program size).')
add('C11', 'exploration', 'Hypothesis rule-based state machines per port kind + exhaustive self-close positions, executable model oracle with counted fake sleep',
    'One state machine per port kind against an executable model of queue/wire/closure, with mido.ports.sleep replaced '
    'by a counting fake that plays scripted arrivals and device self-closure; blocking behaviour is decided as bounded '
    'safety (exact sleep-tick counts, budget). Every position of the self-close among 0-3 arrivals x drain method is '
    'enumerated. Fault rules: device closes itself, device _send starts failing after k sends (every k around the 32 reset messages enumerated); MultiPort built from a generator; PortServer blocking receive; devices whose _receive() returns the message directly; an exception raised inside a with-block must propagate; ports dropped without close (garbage collection).',
    TRUST + ' "Never blocks forever" is checked against a 40-tick budget (correct code needs at most the script length).')
add('C12', 'exploration', 'Hypothesis + reference merge model (differential oracle)',
    'Drawn track lists (ties, floats, end_of_track anywhere, all three message classes) are merged and compared message '
    'by message with a reference merge (absolute tick, track index, position) plus structural invariants and '
    'input-unchanged snapshots. Tracks as lists, tuples, generators, one-shot iterators; re-merge after editing inputs (adding ticks, moving a tick to a neighbour, changing a non-time attribute - also through MidiFile.merged_track of the same file object, type 0 and 1) and after the caller edited an earlier result; 1500 tracks.',
    TRUST)
add('C13', 'exploration', 'Hypothesis + exact rational tempo map, fake clock simulation of play()',
    'Iteration and length are compared with an exact Fraction tempo-map integral over the reference merge order; play() '
    'runs on a fake clock with drawn consumer delays and oversleeps and its recorded sleep calls must equal a simulation '
    'of "sleep exactly the remaining time"; tick2second/second2tick are checked as inverses over the full parameter ranges. Files carry notation / routing meta events that must not influence timing; an observation nested inside a running iteration, length and iteration after in-place edits that keep every track length, a consumer that edits yielded messages, and two threads iterating two different files under the deterministic scheduler (every placement of one or two close preemptions in units.py / midifiles.py / tracks.py) are included.',
    TRUST + ' Stated float tolerances (1e-12 per message, 1e-9 cumulative, few ulps of the clock origin).')
add('C14', 'exploration', 'Hypothesis round-trip / negative-grammar generation, eval(repr) in a restricted namespace',
    'Round trips through str, dict and repr for all message classes, tracks and files; negative texts are built by '
    'mutating valid lines with a catalogue of defects; streams mix valid, blank, comment and invalid lines; arbitrary '
    'token soup checks totality (valid message or ValueError). Option words (skip_checks=1) in text are invalid; streams as list / tuple / iterator / file object; files loaded by name in eval(repr()).',
    TRUST + ' Lexical liberties of int()/float() are not judged.')
add('C15', 'exploration', 'Hypothesis over values x override sets x assignments, value-semantics oracle with multi-route hashing',
    'copy/freeze/thaw are checked for class mapping, equality, independence, rejection of every mutation on frozen '
    'messages and hash/dict agreement between equal messages built along different routes (constructor, from_bytes, file, '
    'copy, float time). One recorded finding (KF-C15-b) is excluded by construction and counted. Copies of frozen messages, repeated thaws.',
    TRUST)
add('C16', 'exploration', 'Hypothesis rule-based state machine, history-independence oracle against a freshly built file',
    'Edits through every documented route interleaved with observations (iterate, length, merged_track, play, save); '
    'each observation must equal the same observation on a freshly constructed MidiFile with the model contents; the '
    'model is cross-checked against mid.tracks after every step. Every successful observation is additionally compared with an independent reference (reference merge, exact tempo map, byte-exact reference SMF encoding), so state that would poison the fresh file too is seen; charset edits, poked results, abandoned iteration/play, splitting and joining tracks, `reload` (the history continues on the object the file reader produced), 12 000-message files.',
    TRUST)
add('C17', 'fault_enumeration', 'Hypothesis-drawn files x enumeration of every fault point (truncation offset, bad byte, bad charset, failing n-th event), public-API probe oracle',
    'For each drawn (charset, texts) file every load truncation offset and every listed load/save fault is executed; '
    'after every call a probe through the public API shows whether latin1 is in force again; the success path compares '
    'file bytes with text.encode(charset) via the strict reference decoder. Faults include an output file whose n-th write() fails (exception kept alive) and misspelt charsets; success path also through real files and charset assignment after construction; texts that look like the signature of another encoding or are special in Unicode; latin1 transparency probes after every call.',
    TRUST + ' Faults are those a load/save can meet from its inputs (no injected OS errors).')
add('C18', 'fault_enumeration', 'Hypothesis-drawn message lists x enumeration of every disconnect offset over socketpair, prefix oracle; TCP PortServer scenarios; exhaustive address grid',
    'Every cut offset of every drawn stream (segmentation and poll placement drawn) is executed on an AF_UNIX socketpair '
    'with each drain method; the port must yield exactly the complete-message prefix, end iteration cleanly and report '
    'closed. Close propagation, send direction, PortServer with disconnecting clients and all 65535 ports x 7 hosts for '
    'the address functions are covered. Every socket case runs under a watchdog thread so that OS-level blocking is reported instead of hanging the check. Also: 70 000-message sessions (segmented and as one backlog), release of the connection after a half-close, server close seen by every client, the server listens on the address it was given, a client sending out-of-band data, close() from a second thread while a reader waits.',
    TRUST + ' The TCP part asserts timing-independent facts only (5 s deadline = lost, not slow, on loop-back).')
add('C19', 'exploration', 'Hypothesis round trip through real temporary files + hand-formatted files, negative hex grammar',
    'Message lists are written in both SYX formats and read back; hand-written text (any whitespace, mixed case) and '
    'binary files must read to the expected sysex list; a catalogue of malformed hex texts must raise ValueError. Stale longer file on the same path, 1500 messages in one file, text files > 1 MiB, a 400 001-byte sysex.',
    TRUST)
add('C20', 'exploration', 'exhaustive enumeration of the configuration grid with an in-memory import finder, reference-resolution oracle',
    'The complete grid of function x name x environment x backend naming x api source x use_environ x load x module shape '
    'x entry point is executed against fake backend modules served by a logging import finder; constructor arguments, '
    'import timing/count, result types and listings are compared with a reference resolution written from the statement. Histories: repeated set_backend on one module, environment / use_environ changed between two calls on one Backend; Backend subclasses with further open_*/get_* functions; a decoy MIDO_BACKEND next to explicit backend names.',
    TRUST + ' Cells the statement leaves undefined are not generated.')

NOT_YET = {}


def main():
    props = [json.loads(line) for line in open(os.path.join(HERE, 'properties.jsonl'))]
    checks = []
    na = []
    for p in props:
        pid = p['id']
        if pid in CHECKS:
            c = CHECKS[pid]
            checks.append({
                'property_id': pid,
                'quick_cmd': f'./check {pid} --tier quick',
                'thorough_cmd': f'./check {pid} --tier thorough',
                'evidence_file': f'evidence/{pid}.json',
                'replay_cmd_template': f'./check {pid} --replay {{path}}',
                'engine': 'pbt-harness',
                'level_claimed': {'category': c['level'], 'text': c['text'], 'design_ref': f'DESIGN.md section 3, {pid}'},
                'level_note': c['note'],
                'technique': c['technique'],
            })
        else:
            na.append({'property_id': pid, 'reason': NOT_YET.get(
                pid, 'check not built yet in this revision (property-based check planned, see DESIGN.md section 3)')})
    man = {
        'version': 1,
        'setup_cmd': ('/venv/bin/pip install --quiet --no-index --find-links /opt/veriftools/wheels '
                      '--target /verif/.deps hypothesis atheris'),
        'hooks': {
            'guard': 'MIDO_MIDO_VERIF',
            'enable': 'no source hooks are needed: checks patch module attributes at run time inside their own process; '
                      './check exports MIDO_MIDO_VERIF=1 for uniformity',
            'baseline_off_cmd': 'cd /repo && /venv/bin/python -m pytest -ra -q -p no:cacheprovider --timeout=900 '
                                '--continue-on-collection-errors',
            'source_commits': [],
            'add_only': True,
        },
        'engines': [{
            'name': 'pbt-harness',
            'path': 'run_check.py',
            'serves_properties': sorted(CHECKS),
            'kind_free_text': 'Hypothesis strategies / rule-based state machines, exhaustive itertools enumeration on a '
                              '16-process pool, deterministic thread scheduler, atheris fuzz targets; explicit oracles '
                              '(reference codecs, metamorphic relations, models); shrunk failures become replay files',
        }],
        'checks': checks,
        'not_applicable': na,
        'notes': 'All checks import mido from /repo\'s current working tree (MIDO_REPO overrides for scratch copies). '
                 'Exit 0 held / 1 violation / 2 harness error. VERIF_SEED selects the Hypothesis seed.',
    }
    with open(os.path.join(HERE, 'MANIFEST.json'), 'w') as f:
        json.dump(man, f, indent=1)
        f.write('\n')
    print('claimed', len(checks), 'not_applicable', len(na))


if __name__ == '__main__':
    main()
