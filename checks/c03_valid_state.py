"""C03 - no invalid message state is reachable through the checked API."""
from numbers import Real

from hypothesis import strategies as st
from hypothesis.stateful import RuleBasedStateMachine, initialize, precondition, rule

import mido
from lib import refmidi as R
from lib.harness import Violation, exc_sig, fail
from lib.vals import T, dec, items_of

LAST_TAGS = set()
PID = 'C03'
LEVEL = 'exploration'
RULE = ('(i) Exhaustive grid: every attribute (and time, and unknown / foreign attribute names) of all 18 types x a value '
        'pool (both limits, limit+-1, mid values, +-2**70, integral and non-integral floats equal to valid values, str, '
        'None, list, tuple, bytes, nan-free) x every entry point (constructor, copy(**ov), attribute assignment, from_dict, '
        'from_str where the value can be written as text, data += for sysex; sysex data as list/tuple/bytes/bytearray/'
        'range/generator). (ii) Rule-based state machine holding one message and a dict model: assign valid / invalid / '
        'float-of-a-previously-valid value / unknown name / type, delete, copy with valid or invalid overrides (optionally '
        'continuing with the copy), data +=, rebuild from dict / str. Oracle: documented domain table; in-domain operations '
        'must succeed and match the model, all others must raise ValueError/TypeError/AttributeError and leave vars(msg) '
        '(values and Python types) unchanged; after every step the message is valid, its type and attribute set unchanged. '
        'Non-trivial = a history with a rejected operation followed by an accepted mutation (grid: value at or just beyond '
        'a limit or ill-typed); distinct by (type, ops).'
        ' Later additions: SysexData values, int subclasses and integral Fractions as values, results of dict()'
        ' and the data list are the caller\'s, option names (skip_checks) inside message text are refused; floats and'
        ' Fractions EQUAL to the stored value (also as a prefix of sysex data) by assignment and copy.')
ASSUMPTIONS = ['skip_checks is never passed (excluded by the statement)', 'bool values are not generated',
               'NaN/inf times are not judged']

OKEXC = (ValueError, TypeError, AttributeError, BytesWarning)   # (BytesWarning: bytes value vs str under python -bb)


def in_domain(name, enc, type_):
    if name == 'time':
        v = dec(enc)
        return isinstance(v, Real) and not isinstance(v, bool)
    if name not in R.attr_names(type_):
        return False
    if name == 'data':
        items = items_of(enc)
        return items is not None and all(R.is_int(b) and 0 <= b <= 127 for b in items)
    return R.value_ok(name, dec(enc))


def model_value(name, enc):
    if name == 'data':
        return tuple(items_of(enc))
    return dec(enc)


def snap(msg):
    return {k: (v, type(v)) for k, v in vars(msg).items()}


def _same(a, b):
    if isinstance(a, int) and isinstance(b, int) and not isinstance(a, bool) and not isinstance(b, bool):
        return a == b           # an int subclass may be stored as it is or as a plain int
    return a == b and type(a) is type(b) or (isinstance(a, tuple) and isinstance(b, tuple) and tuple(a) == tuple(b))


def text_of(enc):
    """Text form of a value for the string format, or None when it cannot be written."""
    if isinstance(enc, bool):
        return None
    if isinstance(enc, int):
        return str(enc)
    if isinstance(enc, float):
        return repr(enc)
    if isinstance(enc, dict) and enc.get('__t__') == 'float':
        return repr(float(enc['v']))
    if isinstance(enc, str) and enc and not any(c.isspace() for c in enc) and '#' not in enc:
        try:
            float(enc)
        except ValueError:
            return enc          # a word that is not a number stays ill-typed in the text format
        return None             # '1' written as text IS the number 1: not an ill-typed value there
    if isinstance(enc, list) and all(isinstance(i, int) and not isinstance(i, bool) for i in enc):
        return '(' + ','.join(str(i) for i in enc) + ')'
    return None


class Interp:
    def __init__(self):
        self.msg = None
        self.type = None
        self.model = None
        self.fails = []
        self.rejected = 0
        self.accepted_after_reject = False

    def _fail(self, clause, detail, **facts):
        self.fails.append(fail(clause, detail, **facts))

    def _check_state(self, what):
        if self.msg is None:
            return
        v = vars(self.msg)
        why = R.ref_valid_vars(v)
        if why:
            self._fail('invalid-state', f'after {what}: {why}; vars={v!r}', type=self.type)
            return
        if v.get('type') != self.type:
            self._fail('type-changed', f'after {what}: type {v.get("type")!r} != {self.type!r}')
        for k, mv in self.model.items():
            if k not in v or not _same(v[k], mv):
                self._fail('model-mismatch', f'after {what}: {k}={v.get(k)!r} ({type(v.get(k)).__name__}) '
                                              f'model {mv!r} ({type(mv).__name__})', type=self.type, attr=k)
                return
        if type(self.msg) is not mido.Message:
            self._fail('class', f'after {what}: {type(self.msg)}')
        if self.type == 'sysex' and type(v['data']).__name__ != 'SysexData':
            self._fail('data-class', f'after {what}: data is {type(v["data"]).__name__}', type='sysex')

    def _expect(self, what, ok, fn, on_ok, facts):
        """Run fn(); ok says whether the domain table accepts it."""
        before = snap(self.msg) if self.msg is not None else None
        try:
            res = fn()
        except OKEXC as exc:
            if ok:
                self._fail('rejects-valid', f'{what}: {exc!r}', **facts)
            else:
                self.rejected += 1
            if before is not None:
                after = snap(self.msg)
                if set(after) != set(before) or any(not (_same(after[k][0], before[k][0]) and
                                                         after[k][1] is before[k][1]) for k in before):
                    self._fail('changed-by-rejected-op', f'{what}: before={before!r} after={after!r}', **facts)
            return
        except Exception as exc:  # noqa: BLE001
            self._fail('wrong-exception', f'{what}: {exc!r}', exc=exc_sig(exc), **facts)
            return
        if not ok:
            self._fail('accepts-invalid', f'{what} -> {res!r}', **facts)
            # continue with whatever state exists so that the invariant reports it as well
            return
        if self.rejected:
            self.accepted_after_reject = True
        on_ok(res)

    def step(self, op):
        kind = op[0]
        if kind == 'new':
            _, t, attrs, entry = op
            self.type = t
            ok = all(in_domain(n, e, t) for n, e in attrs.items())
            model = R.default_msg(t)
            del model['type']
            model['data'] = () if 'data' in model else None
            if model['data'] is None:
                del model['data']
            if ok:
                for n, e in attrs.items():
                    model[n] = model_value(n, e)

            def fn():
                if entry == 'ctor':
                    return mido.Message(t, **{n: dec(e) for n, e in attrs.items()})
                if entry == 'from_dict':
                    return mido.Message.from_dict({'type': t, **{n: dec(e) for n, e in attrs.items()}})
                words = [t] + [f'{n}={text_of(e)}' for n, e in attrs.items()]
                return mido.Message.from_str(' '.join(words))

            def on_ok(res):
                self.msg = res
                self.model = model
            self._expect(f'{entry} {t} {attrs}', ok, fn, on_ok, dict(entry=entry, type=t, attr=next(iter(attrs), '-')))
            self._check_state(f'{entry}')
            return
        if kind == 'newtype':
            # the message type itself must be one of the documented type names
            tv = dec(op[1])
            try:
                res = mido.Message(tv, time=0) if op[2] == 'ctor' else mido.Message.from_dict({'type': tv, 'time': 0})
            except (ValueError, TypeError, AttributeError, LookupError):
                return
            except Exception as exc:  # noqa: BLE001
                self._fail('wrong-exception', f'Message(type={op[1]!r}): {exc!r}', exc=exc_sig(exc))
                return
            self._fail('accepts-invalid', f'Message(type={op[1]!r}) accepted -> vars {vars(res)!r}', entry=op[2], attr='type')
            return
        if self.msg is None:
            return
        t = self.type
        if kind == 'set':
            _, n, e = op
            ok = n != 'type' and in_domain(n, e, t)
            self._expect(f'{t}.{n} = {e}', ok, lambda: setattr(self.msg, n, dec(e)),
                         lambda res: self.model.__setitem__(n, model_value(n, e)), dict(entry='setattr', type=t, attr=n))
        elif kind == 'copy':
            _, ov, adopt = op
            ok = all((n == 'type' and e == t) or (n != 'type' and in_domain(n, e, t)) for n, e in ov.items())
            new_model = dict(self.model)
            if ok:
                for n, e in ov.items():
                    if n != 'type':
                        new_model[n] = model_value(n, e)
            orig = self.msg

            def on_ok(res):
                if res is orig:
                    self._fail('copy-identity', 'copy() returned the same object')
                save_msg, save_model = self.msg, self.model
                self.msg, self.model = res, new_model
                self._check_state(f'copy({ov})')
                if not adopt:
                    self.msg, self.model = save_msg, save_model
            self._expect(f'{t}.copy({ov})', ok, lambda: self.msg.copy(**{n: dec(e) for n, e in ov.items()}), on_ok,
                         dict(entry='copy', type=t, attr=next(iter(ov), '-')))
        elif kind == 'del':
            self._expect(f'del {t}.{op[1]}', False, lambda: delattr(self.msg, op[1]), None,
                         dict(entry='delattr', type=t))
        elif kind == 'iadd':
            e = op[1]
            ok = t == 'sysex' and in_domain('data', e, t)

            def fn():
                self.msg.data += dec(e)

            def on_ok(res):
                self.model['data'] = self.model['data'] + tuple(items_of(e))
            self._expect(f'{t}.data += {e}', ok, fn, on_ok, dict(entry='iadd', type=t))
        elif kind == 'redict':
            def on_ok(res):
                if res is self.msg or not (res == self.msg):
                    self._fail('from_dict-roundtrip', f'{self.msg!r} -> {res!r}', type=t)
                self.msg = res
            self._expect(f'from_dict({t}.dict())', True, lambda: mido.Message.from_dict(self.msg.dict()), on_ok,
                         dict(entry='from_dict', type=t))
        elif kind == 'restr':
            tm = self.model['time']
            if not isinstance(tm, (int, float)) or tm != tm or tm in (float('inf'), float('-inf')):
                return

            def on_ok(res):
                if not (res == self.msg):
                    self._fail('from_str-roundtrip', f'{self.msg!r} -> {res!r}', type=t)
                self.msg = res
            self._expect(f'from_str(str({t}))', True, lambda: mido.Message.from_str(str(self.msg)), on_ok,
                         dict(entry='from_str', type=t))
        else:
            raise KeyError(kind)
        self._check_state(str(op)[:80])


def run_case(case):
    LAST_TAGS.clear()
    if case.get('kind') == 'alias':
        return check_alias()
    it = Interp()
    for op in case['ops']:
        it.step(op)
        if it.fails:
            break               # later steps would only report consequences of the first failure
    if it.rejected:
        LAST_TAGS.add('has-rejected-operation')
    if it.accepted_after_reject:
        LAST_TAGS.add('accepted-after-rejected')
    LAST_TAGS.update('op:' + op[0] for op in case['ops'])
    return it.fails


def nontrivial(case):
    if case.get('kind') == 'alias':
        return True
    it = Interp()
    for op in case['ops']:
        it.step(op)
    return it.accepted_after_reject or case.get('grid_edge', False)


# ---- value pools -----------------------------------------------------------------------------------------------

ILLTYPED = [T('float', 1.5), '1', 'abc', None, [1], T('tuple', [1]), T('bytes', [1]), T('fraction', [1, 2]),
            T('float', 1e300)]
HUGE = [2 ** 70, -2 ** 70]


def pool_for(name):
    if name == 'time':
        good = [0, 1, -1, 2 ** 70, 10 ** 400, T('float', 0.5), T('float', -3.25), T('fraction', [1, 3])]
        bad0 = [' 1e3 ', 'nan', T('bytes', [55])]
        bad = ['1', 'abc', None, [1], T('tuple', [1]), T('bytes', [1])] + bad0
        return good, bad
    if name == 'data':
        good = [[], [0], [127], [1, 2, 3], T('tuple', [5, 6]), T('bytes', [7, 8]), T('bytearray', [9]),
                T('range', [0, 4]), T('gen', [1, 2, 3]), T('gen', []), T('sysexdata', [3, 4]), T('sysexdata', [])]
        bad = [[128], [-1], [1, 128], [1, T('float', 2.0)], [1, '2'], [None], T('gen', [1, 200]), T('gen', [1, '2']),
               T('tuple', [1, 256]), T('bytes', [1, 200]), 3, None, 'abc', T('float', 1.5), [[1]], [2 ** 70],
               T('sysexdata', [1, 128]), T('sysexdata', [240, 126, 247]), T('sysexdata', [T('float', 1.5)]),
               T('sysexdata', ['a', 'b']), T('sysexdata', [999])]
        return good, bad
    lo, hi = R.RANGES[name]
    mid = (lo + hi) // 2
    good = sorted({lo, lo + 1, mid, hi - 1, hi, min(hi, 64), max(lo, 0)})
    bad = [lo - 1, hi + 1] + HUGE + [T('float', float(g)) for g in good] + ILLTYPED + [T('fraction', [hi, 1]),
                                                                                      T('intsub', hi + 1)]
    good = good + [T('intsub', mid), T('intsub', hi)]
    return good, bad


UNKNOWN_NAMES = ['foo', 'bytes', 'copy', '_lock', 'is_meta', 'skip_check', 'Type', '']


def foreign_names(t):
    mine = set(R.attr_names(t)) | {'time', 'type'}
    return [n for n in list(R.RANGES) + ['data'] if n not in mine]


def grid_cases():
    for t in R.ALL_TYPES:
        names = list(R.attr_names(t)) + ['time']
        for n in names:
            good, bad = pool_for(n)
            for vals, edge in ((good, True), (bad, True)):
                for e in vals:
                    for entry in ('ctor', 'from_dict', 'from_str'):
                        if entry == 'from_str' and text_of(e) is None:
                            continue
                        yield {'ops': [['new', t, {n: e}, entry], ['redict']], 'grid_edge': edge}
                    yield {'ops': [['new', t, {}, 'ctor'], ['set', n, e], ['redict'], ['restr']], 'grid_edge': edge}
                    yield {'ops': [['new', t, {}, 'ctor'], ['copy', {n: e}, True], ['redict']], 'grid_edge': edge}
                    yield {'ops': [['new', t, {}, 'ctor'], ['copy', {n: e}, False], ['set', 'time', 3]],
                           'grid_edge': edge}
            if n == 'data':
                for e in good + bad:
                    yield {'ops': [['new', t, {'data': [1]}, 'ctor'], ['iadd', e], ['iadd', [2]]], 'grid_edge': True}
                # ill-typed values that compare EQUAL to what is stored (round 13: an append fast path that validates
                # only the tail when the new value starts with the stored data - 1.0 == 1)
                for pre in ([T('float', 1.0), T('float', 2.0)], [T('fraction', [1, 1]), 2], [1, T('float', 2.0)]):
                    for tail in ([], [3], [3, 4]):
                        for how in ('set', 'copy', 'iadd-full'):
                            first = ['new', t, {'data': [1, 2]}, 'ctor']
                            if how == 'set':
                                yield {'ops': [first, ['set', 'data', pre + tail], ['set', 'time', 1], ['redict']],
                                       'grid_edge': True}
                            elif how == 'copy':
                                yield {'ops': [first, ['copy', {'data': pre + tail}, True], ['redict']], 'grid_edge': True}
                            else:
                                yield {'ops': [first, ['set', 'data', [1, 2]], ['set', 'data', pre + tail],
                                               ['iadd', [5]]], 'grid_edge': True}
            elif n != 'time':
                # the same for the integer attributes: the float / Fraction equal to the stored value
                for g in good[:3]:
                    if isinstance(g, int):
                        for e in (T('float', float(g)), T('fraction', [g, 1])):
                            yield {'ops': [['new', t, {n: g}, 'ctor'], ['set', n, e], ['set', 'time', 1]], 'grid_edge': True}
                            yield {'ops': [['new', t, {n: g}, 'ctor'], ['copy', {n: e}, True]], 'grid_edge': True}
        for n in UNKNOWN_NAMES + foreign_names(t):
            for e in (0, 1, [1]):
                if n:
                    yield {'ops': [['new', t, {n: e}, 'ctor']], 'grid_edge': True}
                    yield {'ops': [['new', t, {n: e}, 'from_dict']], 'grid_edge': True}
                    if text_of(e) and n.isidentifier():
                        yield {'ops': [['new', t, {n: e}, 'from_str']], 'grid_edge': True}
                    yield {'ops': [['new', t, {}, 'ctor'], ['copy', {n: e}, True]], 'grid_edge': True}
                yield {'ops': [['new', t, {}, 'ctor'], ['set', n, e], ['set', 'time', 1]], 'grid_edge': True}
        # the name of the constructor's option is not an attribute: a TEXT cannot switch validation off
        for e in (0, 1):
            yield {'ops': [['new', t, {'skip_checks': e}, 'from_str']], 'grid_edge': True}
            for n in names[:1]:
                if n in R.RANGES:
                    yield {'ops': [['new', t, {'skip_checks': e, n: R.RANGES[n][1] + 1}, 'from_str']], 'grid_edge': True}
        for n in names + ['type', 'foo']:
            yield {'ops': [['new', t, {}, 'ctor'], ['del', n], ['set', 'time', 2]], 'grid_edge': True}
        for t2 in (t, 'note_off' if t != 'note_off' else 'clock', 'bogus', 1, None):
            yield {'ops': [['new', t, {}, 'ctor'], ['set', 'type', t2], ['set', 'time', 2]], 'grid_edge': True}
            yield {'ops': [['new', t, {}, 'ctor'], ['copy', {'type': t2}, True], ['set', 'time', 2]], 'grid_edge': True}
        if t != 'sysex':
            yield {'ops': [['new', t, {}, 'ctor'], ['iadd', [1]], ['set', 'time', 2]], 'grid_edge': True}


def check_alias():
    """Arguments stay the caller's: editing a list after it was passed as data must not reach into the message."""
    out = []
    for how in ('ctor', 'set', 'copy', 'iadd', 'from_dict'):
        lst = [1, 2, 3]
        if how == 'ctor':
            m = mido.Message('sysex', data=lst)
        elif how == 'set':
            m = mido.Message('sysex')
            m.data = lst
        elif how == 'copy':
            m = mido.Message('sysex').copy(data=lst)
        elif how == 'iadd':
            m = mido.Message('sysex')
            m.data += lst
        else:
            m = mido.Message.from_dict({'type': 'sysex', 'data': lst})
        lst.append(200)
        lst[0] = 'x'
        if tuple(m.data) != (1, 2, 3) or R.ref_valid_vars(vars(m)):
            out.append(fail('argument-aliased', f'sysex data passed via {how} follows later edits of the list: {m!r}', how=how))
        d = m.dict()
        d['data'].append(300)
        d['time'] = 'x'
        if tuple(m.data) != (1, 2, 3) or m.time != 0:
            out.append(fail('result-aliased', f'editing the result of dict() changed the message: {m!r}', how=how))
    for t in R.ALL_TYPES:
        m = mido.Message(t)
        before = snap(m)
        d = m.dict()
        for k in list(d):
            d[k] = 'scribble'
        d['extra'] = 1
        d.pop('time', None)
        if snap(m) != before:
            out.append(fail('result-aliased', f'editing the dict returned by {t}.dict() changed the message: {vars(m)!r}',
                            how='dict'))
        v = vars(m)
        del v
    return out


def grid_shard(rec, shard):
    k, n = shard
    for i, case in enumerate(grid_cases()):
        if i % n == k:
            rec.check(case, nontrivial=True, distinct=True, sample=(i % 997 == 0))


# ---- state machine ---------------------------------------------------------------------------------------------

_CTX = None


class MsgMachine(RuleBasedStateMachine):
    def __init__(self):
        super().__init__()
        self.it = Interp()
        self.ops = []

    def _do(self, op):
        self.ops.append(op)
        try:
            self.it.step(op)        # only to keep a model for state-dependent rules; judged again in teardown
        except Exception:  # noqa: BLE001
            pass

    @initialize(t=st.sampled_from(R.ALL_TYPES), data=st.data())
    def init(self, t, data):
        attrs = {}
        for n in R.attr_names(t):
            if data.draw(st.booleans()):
                attrs[n] = data.draw(st.sampled_from(pool_for(n)[0]))
        self._do(['new', t, attrs, data.draw(st.sampled_from(['ctor', 'from_dict']))])

    def _names(self):
        return list(R.attr_names(self.it.type)) + ['time']

    @rule(data=st.data())
    def assign_valid(self, data):
        n = data.draw(st.sampled_from(self._names()))
        self._do(['set', n, data.draw(st.sampled_from(pool_for(n)[0]))])

    @rule(data=st.data())
    def assign_invalid(self, data):
        n = data.draw(st.sampled_from(self._names()))
        self._do(['set', n, data.draw(st.sampled_from(pool_for(n)[1]))])

    @rule(data=st.data())
    def assign_float_of_current(self, data):
        names = [n for n in self._names() if n not in ('time', 'data')]
        if not names or self.it.model is None:
            return
        n = data.draw(st.sampled_from(names))
        self._do(['set', n, T('float', float(self.it.model[n]))])

    @rule(n=st.sampled_from(UNKNOWN_NAMES + ['pitch', 'data', 'note']), e=st.sampled_from([0, 1, [1]]))
    def assign_unknown(self, n, e):
        if self.it.type and n in R.attr_names(self.it.type):
            return
        self._do(['set', n, e])

    @rule(t2=st.sampled_from(R.ALL_TYPES + ['bogus']))
    def assign_type(self, t2):
        self._do(['set', 'type', t2])

    @rule(data=st.data())
    def delete(self, data):
        self._do(['del', data.draw(st.sampled_from(self._names() + ['type', 'foo']))])

    @rule(data=st.data(), adopt=st.booleans(), bad=st.booleans())
    def copy(self, data, adopt, bad):
        names = data.draw(st.lists(st.sampled_from(self._names()), min_size=0, max_size=3, unique=True))
        ov = {n: data.draw(st.sampled_from(pool_for(n)[0])) for n in names}
        if bad:
            n = data.draw(st.sampled_from(self._names() + ['foo', 'type']))
            if n == 'type':
                ov['type'] = data.draw(st.sampled_from(['note_off', 'clock', 'sysex']))
            elif n == 'foo':
                ov['foo'] = 1
            else:
                ov[n] = data.draw(st.sampled_from(pool_for(n)[1]))
        elif data.draw(st.booleans()):
            ov['type'] = self.it.type
        self._do(['copy', ov, adopt])

    @rule(data=st.data(), bad=st.booleans())
    def extend_data(self, data, bad):
        self._do(['iadd', data.draw(st.sampled_from(pool_for('data')[1 if bad else 0]))])

    @rule()
    def rebuild_from_dict(self):
        self._do(['redict'])

    @rule()
    def rebuild_from_str(self):
        self._do(['restr'])

    def teardown(self):
        unknown = _CTX.run_tagged({'ops': self.ops})
        if unknown:
            raise Violation(unknown[0]['sig'])


def machine_shard(rec, shard):
    global _CTX
    _CTX = rec
    k, n, steps = shard
    rec.machine(MsgMachine, n, steps, label='msg-machine', seed_offset=k)


def main(ctx):
    ctx.check({'kind': 'alias'})
    big_ok = T('tuple', [(i * 7) % 128 for i in range(20000)])
    for bad_byte in (128, 200, 255, 256, -1):
        big_bad = T('tuple', [(i * 7) % 128 for i in range(19999)] + [bad_byte])
        big_bad2 = [bad_byte] + [(i * 7) % 128 for i in range(16384)]
        for entry in ('ctor', 'from_dict'):
            ctx.check({'ops': [['new', 'sysex', {'data': big_bad}, entry]], 'grid_edge': True}, sample=False)
            ctx.check({'ops': [['new', 'sysex', {'data': big_bad2}, entry]], 'grid_edge': True}, sample=False)
        ctx.check({'ops': [['new', 'sysex', {'data': big_ok}, 'ctor'], ['set', 'data', big_bad], ['copy', {'data': big_bad2}, True],
                           ['iadd', big_bad], ['redict']], 'grid_edge': True}, sample=False)
    # ... and long payloads whose single bad element is ill-typed but numerically in range (any length, any position)
    for n in (257, 300, 1000, 70000):
        for bad in (T('float', 5.0), T('fraction', [5, 1]), T('float', 0.5)):
            for pos in (0, n // 2, n - 1):
                data = [(i * 3) % 128 for i in range(n)]
                data[pos] = bad
                for entry in (('ctor', 'from_dict') if n < 70000 else ('ctor',)):
                    ctx.check({'ops': [['new', 'sysex', {'data': data}, entry]], 'grid_edge': True}, sample=False)
                if n == 300:
                    ctx.check({'ops': [['new', 'sysex', {'data': [1]}, 'ctor'], ['set', 'data', data], ['copy', {'data': data}, True],
                                       ['iadd', data], ['redict']], 'grid_edge': True}, sample=False)
    for tval in (0x90, 0xB0, 0xF0, 0xF8, 0x80, T('float', 144.0), 0, 1, None, T('tuple', ['note_on']), ['note_on'], 'Note_On', ''):
        ctx.check({'ops': [['newtype', tval, 'ctor']], 'grid_edge': True}, sample=False)
        ctx.check({'ops': [['newtype', tval, 'from_dict']], 'grid_edge': True}, sample=False)
    ctx.pmap('grid_shard', [(k, 16) for k in range(16)])
    ctx.exhaustive = True
    ctx.extra['exhaustive_scope'] = 'the attribute x value-pool x entry-point grid (finite by construction); histories sampled'
    n = 1200 if ctx.tier == 'quick' else 32000
    w = 8 if ctx.tier == 'quick' else 16
    ctx.pmap('machine_shard', [(k, n // w, 30 if ctx.tier == 'quick' else 50) for k in range(w)])
