"""Harness doubles for port checks: a device port with a byte wire, and a counted fake sleep."""
from collections import deque

import mido
import mido.ports as ports_mod
from mido.ports import BaseIOPort

CLOSE = 'CLOSE'


class SleepBudget(BaseException):
    """Raised by the fake sleep when a blocking call polls more often than any correct implementation needs."""


class Dev(BaseIOPort):
    """Device double: bytes arrive on `wire`; _receive moves them into the parser; a CLOSE marker on the wire makes
    the device close itself from inside _receive (what a socket port does on EOF)."""

    def _open(self, **kwargs):
        self.wire = deque()
        self.calls = []
        self.fail_after = None      # fault injection: _send raises OSError once this many sends have succeeded

    def _send(self, msg):
        if self.fail_after is not None:
            if self.fail_after <= 0:
                raise OSError('device gone')
            self.fail_after -= 1
        self.calls.append(('send', msg))

    def _receive(self, block=True):
        while self.wire:
            item = self.wire.popleft()
            if item == CLOSE:
                self.close()
                break
            self._parser.feed(item)

    def _close(self):
        self.calls.append(('close',))


class DirectDev(Dev):
    """The other documented way of writing a device port ("_receive() is allowed to return a message"): everything that
    has arrived is taken in, the first message is RETURNED, the rest stays queued in the port."""

    def _receive(self, block=True):
        Dev._receive(self, block)
        if self._messages:
            return self._messages.popleft()
        return None


class FakeSleep:
    """Replacement for mido.ports.sleep: counts calls, runs the next scripted device action, enforces a budget."""

    def __init__(self, budget=60):
        self.count = 0
        self.budget = budget
        self.script = deque()

    def __call__(self):
        self.count += 1
        if self.count > self.budget:
            raise SleepBudget(self.count)
        if self.script:
            self.script.popleft()()


class patched_sleep:
    def __init__(self, fake):
        self.fake = fake

    def __enter__(self):
        self.saved = ports_mod.sleep
        self.saved_random = ports_mod.random
        ports_mod.sleep = self.fake
        ports_mod.random = _NoShuffle()       # multi_receive polls its ports in list order: deterministic
        return self.fake

    def __exit__(self, *exc):
        ports_mod.sleep = self.saved
        ports_mod.random = self.saved_random
        return False


class _NoShuffle:
    def shuffle(self, seq):
        return None


def note(k, ch=0):
    return mido.Message('note_on', channel=ch % 16, note=k % 128, velocity=1 + (k // 128) % 127)


class WirePort(BaseIOPort):
    """Loop-back device for the concurrency check: _send writes the message BYTE BY BYTE to a shared wire (one
    statement per byte, so that a missing lock shows up as byte-wise mixing), _receive moves bytes from the wire into
    the parser (the pattern of the documentation's custom port and of the PortMidi backend)."""

    def _open(self, wire=None, **kwargs):
        self.wire = wire if wire is not None else deque()

    def _send(self, msg):
        for byte in msg.bytes():
            self.wire.append(byte)

    def _receive(self, block=True):
        while self.wire:
            byte = self.wire.popleft()
            self._parser.feed_byte(byte)


class KeepPort(BaseIOPort):
    """Loop-back device that queues the very Message objects its _send() is given (the pattern of the port double in
    the repository's tests and of examples/ports/queue_port.py): whether the receiver gets a copy is then entirely up
    to BaseOutput.send()."""

    def _open(self, **kwargs):
        pass

    def _send(self, msg):
        self._messages.append(msg)


class DirectWirePort(WirePort):
    """WirePort whose _receive() RETURNS the first message it has parsed (the other documented device protocol)."""

    def _receive(self, block=True):
        WirePort._receive(self, block)
        if self._messages:
            return self._messages.popleft()
        return None


class jumping_clock:
    """Parsing, encoding and file code has no business looking at the clock: while this context is active, every
    clock function the given modules can reach (through `import time` or `from time import ...`) jumps ten seconds per
    call.  Code that does not look at the clock is not affected at all."""

    NAMES = ('monotonic', 'perf_counter', 'time', 'monotonic_ns', 'perf_counter_ns', 'time_ns')

    def __init__(self, *modules):
        self.modules = modules
        self.saved = []
        self.now = [1.0e6]

    def _fake(self, name):
        def fn():
            self.now[0] += 10.0
            return int(self.now[0] * 1e9) if name.endswith('_ns') else self.now[0]
        return fn

    def __enter__(self):
        import time as _time
        import types
        fake_mod = types.SimpleNamespace(**{k: getattr(_time, k) for k in dir(_time) if not k.startswith('__')})
        for name in self.NAMES:
            setattr(fake_mod, name, self._fake(name))
        for mod in self.modules:
            for attr, val in list(vars(mod).items()):
                if val is _time:
                    self.saved.append((mod, attr, val))
                    setattr(mod, attr, fake_mod)
                elif attr in self.NAMES and val is getattr(_time, attr, None):
                    self.saved.append((mod, attr, val))
                    setattr(mod, attr, self._fake(attr))
        return self

    def __exit__(self, *exc):
        for mod, attr, val in self.saved:
            setattr(mod, attr, val)
        del self.saved[:]
        return False
