"""C10 - ports deliver each message exactly once and in order under concurrent use."""
import itertools
from collections import deque

from hypothesis import strategies as st

import mido
import mido.backends._parser_queue as pq_mod
import mido.ports as ports_mod
from lib.doubles import DirectWirePort, KeepPort, WirePort
from lib.harness import exc_sig, fail
from lib.sched import Scheduler

PID = 'C10'
CASE_TIMEOUT = 0         # bounded by the scheduler's step bound; alarms and scheduler threads do not mix
LEVEL = 'exploration'
RULE = ('Programs: port kind in {lock-protected device double with a byte-wise wire, EchoPort, IOPort(dev, dev), '
        'IOPort(in_dev, out_dev) over a shared wire, MultiPort over two ports with yield_ports on/off, ParserQueue fed by '
        'device threads}; 1-3 sender threads with 1-3 messages each (channel = sender, control/value = sequence number, '
        'or multi-byte sysex), 1-2 receiver threads using poll / blocking receive / iter_pending with quotas; a sender may '
        'mutate its message right after send returns. Schedules are owned by the harness (lib/sched.py: one runnable '
        'thread, yield at every traced line of ports.py / parser.py / tokenizer.py / _parser_queue.py / the device '
        'double, cooperative RLock shim, sleep = forced yield): (i) for a fixed set of small programs EVERY schedule with '
        'at most one preemption (quick) or two preemptions (thorough) and every choice of starting thread is enumerated; '
        '(ii) Hypothesis draws larger programs with random dense choice lists. Oracle over the history: no thread ended '
        'with an exception; every received object equals one sent message attribute by attribute; received multiset == sent '
        'multiset (x sub-ports for MultiPort); per receiver and sender the sequence numbers are in sending order (merge of '
        'k FIFO streams for MultiPort); a received message is not the sent object and is unaffected by later mutation; all '
        'threads finish within the step bound (no deadlock / livelock). Non-trivial = the executed trace has a context '
        'switch while the switched-out thread was inside send/receive/poll; distinct by (program, executed thread sequence).'
        ' Later additions: port kinds keep (device double queueing the object handed to _send), ioport-shared (one'
        ' output device behind two wrappers and direct senders), multi-yield, pqueue (ParserQueue judged against'
        ' its parser\'s order); real-time senders next to multi-byte senders; programs preemptible inside the'
        ' encoder; receivers with over-subscribed quotas; 140 000-message backlog.')
ASSUMPTIONS = ['interleaving granularity is one source line of the traced modules; deque/list operations are atomic under '
               'the GIL, switches inside one statement are not explored',
               'ParserQueue receivers use poll() only (queue.Queue.get would block the OS thread outside the scheduler)']

TRACED = ('mido/ports.py', 'mido/parser.py', 'mido/tokenizer.py', 'mido/backends/_parser_queue.py', 'lib/doubles.py')
# programs marked 'deep' can also be preempted inside the message codec (shared scratch state there would show)
TRACED_DEEP = TRACED + ('mido/messages/encode.py', 'mido/messages/decode.py', 'mido/messages/messages.py')
LAST = {}
PRODUCED = []


def make_msg(sender, seq, sysex):
    if sysex == 'mixed':
        if sender == 0:
            return mido.Message('clock')    # a real-time sender next to multi-byte senders (identified by count)
        return mido.Message('control_change', channel=sender, control=seq, value=seq + 1)
    if sysex == 'same-type':
        # all senders use the same message type with different channels / data (shared encoder state would mix them)
        return mido.Message('polytouch', channel=sender, note=seq, value=seq + 1)
    if seq > 126:
        # long runs: the sequence number does not fit one data byte
        return mido.Message('sysex', data=[sender, seq % 128, 0x11, 0x22, 0x33, seq // 128])
    if sysex == 'rt':
        # a real-time message: its only attribute is time, which object-keeping ports (echo, multi) preserve
        return mido.Message('clock', time=sender * 100 + seq + 1)
    if sysex:
        return mido.Message('sysex', data=[sender, seq, 0x11, 0x22, 0x33])
    return mido.Message('control_change', channel=sender, control=seq, value=seq + 1)


def ident(m):
    """(sender, seq) encoded in a received message, or None if it is not an intact sent message."""
    if type(m) is not mido.Message:
        return None
    if m.type == 'clock' and m.time == 0:
        return (0, -1)
    if m.type == 'polytouch' and m.value == m.note + 1 and m.time == 0:
        return (m.channel, m.note)
    if m.type == 'clock' and isinstance(m.time, int) and 1 <= m.time < 2000:
        return ((m.time - 1) // 100, (m.time - 1) % 100)
    if m.type == 'control_change' and m.value == m.control + 1 and m.time == 0:
        return (m.channel, m.control)
    if m.type == 'sysex' and len(m.data) == 5 and tuple(m.data[2:]) == (0x11, 0x22, 0x33) and m.time == 0:
        return (m.data[0], m.data[1])
    if m.type == 'sysex' and len(m.data) == 6 and tuple(m.data[2:5]) == (0x11, 0x22, 0x33) and m.time == 0:
        return (m.data[0], m.data[1] + 128 * m.data[5])
    return None


def build_world(prog, sched):
    kind = prog['port']
    saved = (ports_mod.threading, ports_mod.sleep, pq_mod.RLock, ports_mod.random, pq_mod.Parser)
    PRODUCED.clear()

    class LoggingParser(mido.Parser):
        """The ParserQueue's parser, observed through the public Parser API: logs the order in which messages were
        produced from the byte stream, which is the order the queue must hand them out in."""

        def feed(self, data):
            before = len(self.messages)
            mido.Parser.feed(self, data)
            PRODUCED.extend(list(self.messages)[before:])
    pq_mod.Parser = LoggingParser
    shim = sched.shim()
    ports_mod.threading = shim
    ports_mod.sleep = sched.pause
    pq_mod.RLock = shim.RLock

    class _NoShuffle:
        def shuffle(self, seq):
            pick = prog.get('shuffle', 0)
            if pick and len(seq) > 1:
                seq.reverse()
    ports_mod.random = _NoShuffle()
    copies = 1
    if kind == 'wire':
        port = WirePort('w')
        send = port.send
    elif kind == 'echo':
        port = ports_mod.EchoPort()
        send = port.send
    elif kind == 'keep':
        port = KeepPort('k')
        send = port.send
    elif kind == 'wire-direct':
        port = DirectWirePort('wd')
        send = port.send
    elif kind == 'ioport-same':
        dev = WirePort('d')
        port = ports_mod.IOPort(dev, dev)
        send = port.send
    elif kind == 'ioport-pair':
        wire = deque()
        port = ports_mod.IOPort(WirePort('in', wire=wire), WirePort('out', wire=wire))
        send = port.send
    elif kind == 'ioport-shared':
        # the wrapped output device is also used directly (and by a second wrapper): all paths must serialise on it
        wire = deque()
        inp, outp = WirePort('in', wire=wire), WirePort('out', wire=wire)
        port = ports_mod.IOPort(inp, outp)
        second = ports_mod.IOPort(inp, outp)
        routes = [port.send, outp.send, second.send]

        def send(m, _routes=routes):
            me = sched.me()
            _routes[(me.idx if me else 0) % len(_routes)](m)
    elif kind in ('multi', 'multi-yield'):
        # (a wire sub-port serialises to bytes and drops `time`, the only attribute of the real-time kind)
        subs = [ports_mod.EchoPort(), ports_mod.EchoPort() if prog.get('sysex') == 'rt' else WirePort('w2')]
        # (round 13: the sub-ports given as a one-shot iterator - the constructor must keep a list of them)
        port = ports_mod.MultiPort(iter(subs) if kind == 'multi-yield' else subs, yield_ports=(kind == 'multi-yield'))
        send = port.send
        copies = 2
    elif kind == 'pqueue':
        port = pq_mod.ParserQueue()

        def send(m):
            port.put_bytes(m.bytes())
    else:
        raise KeyError(kind)
    return port, send, copies, saved


def restore_world(saved):
    ports_mod.threading, ports_mod.sleep, pq_mod.RLock, ports_mod.random, pq_mod.Parser = saved


def run_program(prog, schedule, first=0, max_steps=None):
    n_msgs = sum(prog['senders'])
    sched = Scheduler(TRACED_DEEP if prog.get('deep') else TRACED, schedule=schedule, first=first,
                      max_steps=max_steps or (4000 + 1500 * n_msgs * (2 + len(prog['receivers']))))
    port, send, copies, saved = build_world(prog, sched)
    sent = []         # (sender, seq, object, snapshot bytes)
    received = [[] for _ in prog['receivers']]
    expected_total = n_msgs * copies
    try:
        def sender(i, n):
            def body():
                me = sched.me()
                for j in range(n):
                    m = make_msg(i, j, prog.get('sysex', False))
                    snap = m.bytes()
                    sent.append((i, j, m, snap))
                    me.in_op = True
                    send(m)
                    me.in_op = False
                    if prog.get('mutate'):
                        if m.type == 'sysex':
                            m.data = (99, 99)
                        elif m.type == 'clock':
                            m.time = 7777
                        else:
                            m.value = 0
                            m.channel = 15
            return body

        def receiver(r, spec):
            def body():
                me = sched.me()
                got = received[r]
                mode = spec['mode']
                quota = spec['quota']
                # programs with a blocking receiver give every receiver a fixed quota (a blocking call must be
                # guaranteed a message); otherwise all receivers compete until everything has been received, so that
                # several receivers can go for the same last message
                use_quota = any(x['mode'] in ('receive', 'iterate') for x in prog['receivers'])
                while (len(got) < quota) if use_quota else (sum(len(g) for g in received) < expected_total):
                    me.in_op = True
                    if mode == 'receive' and prog['port'] != 'pqueue':
                        m = port.receive()
                        items = [m]
                    elif mode == 'iterate' and prog['port'] != 'pqueue':
                        items = []
                        for m in port:                  # `for msg in port`: blocks for the next message
                            items.append(m)
                            if len(got) + len(items) >= quota:
                                break
                    elif mode == 'iter_pending' and prog['port'] != 'pqueue':
                        items = []
                        for m in port.iter_pending():
                            items.append(m)
                            if use_quota and len(got) + len(items) >= quota:
                                break
                    else:
                        m = port.poll()
                        items = [] if m is None else [m]
                    me.in_op = False
                    got.extend(items)
                    if not items:
                        sched.pause()
            return body

        for i, n in enumerate(prog['senders']):
            sched.add(sender(i, n))
        for r, spec in enumerate(prog['receivers']):
            sched.add(receiver(r, spec))
        # Determinism: the cyclic garbage collector may run BasePort.__del__ (-> close(), traced lines, lock traffic)
        # of ports from earlier cases at any moment inside a program thread, which would consume schedule steps.
        # So: no collection while a schedule runs, and nothing collectable is left behind afterwards.
        import gc
        gc.disable()
        try:
            sched.run()
        finally:
            gc.enable()
    finally:
        restore_world(saved)
        for obj in [port] + list(getattr(port, 'ports', [])) + [getattr(port, 'input', None), getattr(port, 'output', None)]:
            if obj is not None and hasattr(obj, 'closed'):
                obj.closed = True
        sched.gave_up = sched.abort
        sched.abort = True          # whatever is still alive of this run stops at its next yield point
        for t in sched.threads:
            t.fn = None
        sched.by_ident.clear()
    return sched, sent, received, copies


def evaluate(prog, sched, sent, received, copies):
    out = []
    kind = prog['port']
    facts = dict(port=kind)
    if getattr(sched, 'gave_up', sched.abort):
        out.append(fail('no-progress', f'{sched.abort_reason} after {sched.steps} steps', **facts))
        return out
    for t in sched.threads:
        if t.error is not None:
            role = 'sender' if t.idx < len(prog['senders']) else 'receiver'
            out.append(fail('thread-exception', f'{role} thread {t.idx}: {t.error!r}', exc=exc_sig(t.error), role=role,
                            **facts))
    if out:
        return out
    sent_objs = {id(m) for _, _, m, _ in sent}
    want = {}
    for i, j, m, snap in sent:
        key = ident(mido.Message.from_bytes(snap)) if prog.get('sysex') == 'mixed' else (i, j)
        want[key] = want.get(key, 0) + copies
    seen = {}
    for r, got in enumerate(received):
        per_sender = {}
        for item in got:
            m = item[1] if (kind == 'multi-yield' and isinstance(item, tuple)) else item
            if id(m) in sent_objs:
                out.append(fail('not-a-copy', f'receiver {r} got the very object that was sent: {m!r}', **facts))
                return out
            k = ident(m)
            if k is None or k not in want:
                out.append(fail('corrupted', f'receiver {r} got {m!r}, which is not a message that was sent '
                                             f'(mutation visible or bytes mixed)', **facts))
                return out
            seen[k] = seen.get(k, 0) + 1
            per_sender.setdefault(k[0], []).append(k[1])
        for s, seqs in per_sender.items():
            counts = {}
            for j in seqs:
                c = counts.get(j, 0)
                if c >= copies or (j > 0 and counts.get(j - 1, 0) <= c and copies == 1):
                    pass
                # the c-th copy of message j must come after the c-th copy of message j-1 as seen by this receiver,
                # unless that earlier copy went to another receiver: with one receiver the rule is exact
                counts[j] = c + 1
            if copies == 1 and seqs != sorted(seqs) and prog.get('sysex') != 'mixed':
                out.append(fail('order', f'receiver {r} got sender {s}\'s messages in order {seqs}', **facts))
                return out
            if copies > 1 and len(prog['receivers']) == 1:
                cnt = {}
                for j in seqs:
                    c = cnt.get(j, 0)
                    if j > 0 and cnt.get(j - 1, 0) <= c:
                        out.append(fail('order', f'receiver {r} got sender {s}\'s messages in order {seqs} '
                                                 f'(not a merge of {copies} FIFO streams)', **facts))
                        return out
                    cnt[j] = c + 1
    if kind == 'pqueue' and len(received) == 1 and not out:
        got = [ident(m) for m in received[0]]
        prod = [ident(m) for m in PRODUCED]
        if got != prod[:len(got)]:
            out.append(fail('queue-fifo', f'the parser produced {prod} but the queue handed out {got}', **facts))
    if seen != want:
        missing = {k: v - seen.get(k, 0) for k, v in want.items() if seen.get(k, 0) != v}
        out.append(fail('exactly-once', f'received counts differ from sent: (sender, seq) -> missing(+)/extra(-) {missing}',
                        **facts))
    return out


def check_backlog(n):
    out = []
    for kind in ('echo', 'ioport'):
        port = ports_mod.EchoPort()
        view = port if kind == 'echo' else ports_mod.IOPort(port, port)
        for i in range(n):
            view.send(mido.Message('pitchwheel', channel=i % 16, pitch=(i // 16) % 16384 - 8192))
        got = 0
        first_bad = None
        for m in view.iter_pending():
            if first_bad is None and (m.channel != got % 16 or m.pitch != (got // 16) % 16384 - 8192):
                first_bad = got
            got += 1
        if got != n or first_bad is not None:
            out.append(fail('backlog', f'{kind}: sent {n} messages before anything was received, got {got} back'
                                       f' (first wrong one at position {first_bad})', port=kind))
        port.closed = True
        view.closed = True
    return out


def check_subport_fault(case):
    """A MultiPort whose sub-port `bad` raises once while it is polled and whose other sub-ports hold messages (round 14:
    the poll results of one round collected in a temporary list that an exception throws away).  Exactly-once does not
    end with a transient device error: what the other sub-ports had taken in is still delivered, once, by later calls.
    The order in which sub-ports are polled is owned by the harness (random.shuffle in mido.ports is pinned)."""
    class Flaky(ports_mod.BaseInput):
        def _open(self, **kwargs):
            self.fail_next = 0

        def _receive(self, block=True):
            if self.fail_next:
                self.fail_next -= 1
                raise OSError('transient device error')

    n, bad, per, how, order = case['n'], case['bad'], case['per'], case['how'], case['order']
    subs = [Flaky(f'f{i}') if i == bad else ports_mod.EchoPort() for i in range(n)]
    mp = ports_mod.MultiPort(subs)
    sent = []
    for i, sp in enumerate(subs):
        if i != bad:
            for j in range(per):
                m = mido.Message('control_change', channel=i, control=j, value=7)
                sp.send(m)
                sent.append((i, j))
    subs[bad].fail_next = 1
    saved = ports_mod.random.shuffle
    ports_mod.random.shuffle = (lambda x: None) if order == 'keep' else (lambda x: x.reverse())
    got, faults = [], 0
    try:
        for _ in range(len(sent) + 6):
            try:
                if how == 'poll':
                    m = mp.poll()
                    if m is not None:
                        got.append((m.channel, m.control))
                else:
                    got.extend((m.channel, m.control) for m in mp.iter_pending())
            except OSError:
                faults += 1
    except Exception as exc:  # noqa: BLE001
        return [fail('raises', f'{case}: {exc!r}', exc=exc_sig(exc), port='multi')]
    finally:
        ports_mod.random.shuffle = saved
        for sp in subs:
            sp.closed = True
        mp.closed = True
    out = []
    if sorted(got) != sorted(sent) or any([g for g in got if g[0] == i] != [x for x in sent if x[0] == i] for i in range(n)):
        out.append(fail('exactly-once', f'{case}: after a transient error of sub-port {bad} ({faults} seen) received '
                                        f'{got[:10]} of {len(sent)} sent {sent[:10]}', port='multi', fault='sub-port'))
    return out


def run_case(case):
    if case.get('kind') == 'backlog':
        LAST.clear()
        return check_backlog(case['n'])
    if case.get('kind') == 'subport-fault':
        LAST.clear()
        return check_subport_fault(case)
    prog = case['prog']
    sched, sent, received, copies = run_program(prog, case.get('sched'), case.get('first', 0))
    LAST.clear()
    LAST.update(steps=sched.steps, interesting=sched.interesting_switch, trace=tuple(sched.trace_ids),
                preemptions=sched.preemptions, lock_waits=sched.lock_waits)
    return evaluate(prog, sched, sent, received, copies)


_DO = [0]


def do(rec, case, sample=False):
    _DO[0] += 1
    if not rec.keep(_DO[0], 24):
        return []
    fs = rec.execute(case)
    nt = LAST.get('interesting', 0) > 0
    # distinct by program + executed thread sequence
    if nt:
        rec.nt.add(hash((repr(sorted(case['prog'].items(), key=str)), LAST.get('trace'))).to_bytes(8, 'little', signed=True))
    if LAST.get('lock_waits'):
        rec.classes['schedules-with-lock-contention'] += 1
    if LAST.get('preemptions'):
        rec.classes['schedules-with-preemption'] += 1
    unknown = rec.run(case, nontrivial=False, failures=fs, sample=sample)
    if unknown:
        rec.note_violation(case, unknown)
    return unknown


def nontrivial(case):
    return False


# ---- small programs for exhaustive bounded-preemption enumeration --------------------------------------------------

def small_programs():
    progs = []
    for port in ('wire', 'wire-direct', 'echo', 'keep', 'ioport-same', 'ioport-pair', 'ioport-shared', 'multi', 'multi-yield', 'pqueue'):
        two = 2 if not port.startswith('multi') else 4
        progs.append({'port': port, 'senders': [1, 1], 'receivers': [{'mode': 'poll', 'quota': two}], 'sysex': True})
        progs.append({'port': port, 'senders': [2], 'receivers': [{'mode': 'poll', 'quota': two // 2},
                                                                 {'mode': 'poll', 'quota': two - two // 2}]})
        if port != 'pqueue':
            progs.append({'port': port, 'senders': [2], 'receivers': [{'mode': 'receive', 'quota': two // 2},
                                                                     {'mode': 'iter_pending', 'quota': two - two // 2}],
                          'mutate': True})
            progs.append({'port': port, 'senders': [1, 1], 'receivers': [{'mode': 'receive', 'quota': two}],
                          'mutate': True, 'sysex': port in ('wire', 'wire-direct', 'ioport-pair')})
        if port in ('multi', 'multi-yield'):
            progs.append({'port': port, 'senders': [3], 'receivers': [{'mode': 'poll', 'quota': 3},
                                                                     {'mode': 'poll', 'quota': 3}]})
        if port in ('wire', 'ioport-pair', 'ioport-shared'):
            progs.append({'port': port, 'senders': [1, 1], 'receivers': [{'mode': 'poll', 'quota': 2}], 'sysex': 'mixed'})
        if port in ('wire', 'echo'):
            progs.append({'port': port, 'senders': [1, 1], 'receivers': [{'mode': 'poll', 'quota': 2}], 'sysex': 'same-type',
                          'deep': True})
        if port in ('echo', 'keep', 'multi', 'multi-yield'):
            # object-keeping ports with a real-time message that the sender changes right after send()
            progs.append({'port': port, 'senders': [2], 'receivers': [{'mode': 'poll', 'quota': two}], 'sysex': 'rt',
                          'mutate': True})
        if port not in ('pqueue',):
            # two receivers, each ready to take everything (a drain loop and a poller competing for the queued rest)
            progs.append({'port': port, 'senders': [2], 'receivers': [{'mode': 'iter_pending', 'quota': two},
                                                                     {'mode': 'poll', 'quota': two}]})
        if port not in ('pqueue',):
            # a receiver that iterates over the port (`for msg in port`) next to one that polls
            progs.append({'port': port, 'senders': [2], 'receivers': [{'mode': 'iterate', 'quota': two // 2},
                                                                     {'mode': 'poll', 'quota': two - two // 2}]})
        # two receivers going for a single message / for the last message
        progs.append({'port': port, 'senders': [1], 'receivers': [{'mode': 'poll', 'quota': 1},
                                                                 {'mode': 'poll', 'quota': 1}]})
        if port != 'pqueue':
            progs.append({'port': port, 'senders': [1], 'receivers': [{'mode': 'iter_pending', 'quota': 1},
                                                                     {'mode': 'poll', 'quota': 1}], 'mutate': True})
    return progs


def window_shard(rec, shard):
    """Quick-tier supplement: for two byte-wise programs every pair of preemptions at most 24 steps apart (a second
    thread has to be stopped inside its own critical section shortly after the first one was)."""
    which, k, n = shard
    prog = [{'port': 'wire', 'senders': [1, 1], 'receivers': [{'mode': 'poll', 'quota': 2}], 'sysex': True},
            {'port': 'ioport-shared', 'senders': [1, 1], 'receivers': [{'mode': 'poll', 'quota': 2}]},
            {'port': 'keep', 'senders': [2], 'receivers': [{'mode': 'iterate', 'quota': 1}, {'mode': 'poll', 'quota': 1}]},
            {'port': 'ioport-pair', 'senders': [2], 'receivers': [{'mode': 'iterate', 'quota': 1},
                                                                  {'mode': 'poll', 'quota': 1}]}][which]
    idx = 0
    for first in (0, 1):
        rec.execute({'prog': prog, 'sched': [], 'first': first})
        steps = min(LAST['steps'], 140)          # both senders are done well before that; the rest is the receiver
        for i in range(steps):
            for j in range(i + 1, min(i + 25, steps + 20)):
                for a, b in (((1, 1), (1, 2)) if which < 2 else ((1, 1), (1, 2), (2, 1), (2, 2))):
                    idx += 1
                    if idx % n == k:
                        do(rec, {'prog': prog, 'sched': [[i, a], [j, b]], 'first': first})


def triple_shard(rec, shard):
    """Every schedule with exactly three preemptions for the shortest programs (EchoPort, under ~40 steps)."""
    which, k, n = shard
    progs = [{'port': 'echo', 'senders': [1, 1], 'receivers': [{'mode': 'poll', 'quota': 2}]},
             {'port': 'echo', 'senders': [2], 'receivers': [{'mode': 'poll', 'quota': 1}, {'mode': 'poll', 'quota': 1}]},
             {'port': 'echo', 'senders': [1], 'receivers': [{'mode': 'poll', 'quota': 1}, {'mode': 'iter_pending', 'quota': 1}],
              'mutate': True},
             {'port': 'echo', 'senders': [1, 1], 'receivers': [{'mode': 'receive', 'quota': 1}, {'mode': 'receive', 'quota': 1}]}]
    prog = progs[which]
    idx = 0
    rec.execute({'prog': prog, 'sched': [], 'first': 0})
    steps = min(LAST['steps'] + 6, 46)
    nthreads = len(prog['senders']) + len(prog['receivers'])
    for i, j, l in itertools.combinations(range(steps), 3):
        for alts in itertools.product(range(1, nthreads), repeat=3):
            idx += 1
            if idx % n == k:
                do(rec, {'prog': prog, 'sched': [[i, alts[0]], [j, alts[1]], [l, alts[2]]], 'first': 0})


def enum_shard(rec, shard):
    pi, depth, k, n = shard
    prog = small_programs()[pi]
    nthreads = len(prog['senders']) + len(prog['receivers'])
    idx = 0
    for first in range(nthreads):
        base = {'prog': prog, 'sched': [], 'first': first}
        base_failures = rec.execute(base)
        steps = LAST['steps']
        if base_failures:
            # the program already fails without any preemption (under a broken tree it may run into the step bound):
            # report that and do not enumerate thousands of schedules of a run that never ends
            if k == 0:
                do(rec, base, sample=False)
            continue
        if k == 0:
            do(rec, base, sample=(first == 0))
        alts = range(1, nthreads)
        for i in range(steps):
            for a in alts:
                idx += 1
                if idx % n != k:
                    continue
                do(rec, {'prog': prog, 'sched': [[i, a]], 'first': first})
        if depth >= 2:
            for i, j in itertools.combinations(range(steps + 40), 2):
                if steps > 200 and j - i > 80:
                    continue        # long programs: second preemption within a window of the first (see DESIGN C10)
                for a, b in itertools.product(alts, repeat=2):
                    idx += 1
                    if idx % n != k:
                        continue
                    do(rec, {'prog': prog, 'sched': [[i, a], [j, b]], 'first': first})


@st.composite
def drawn_cases(draw):
    port = draw(st.sampled_from(['wire', 'wire-direct', 'echo', 'keep', 'ioport-same', 'ioport-pair', 'ioport-shared', 'multi', 'multi-yield',
                                 'pqueue']))
    senders = draw(st.lists(st.integers(1, 3), min_size=1, max_size=3))
    total = sum(senders) * (2 if port.startswith('multi') else 1)
    nrec = draw(st.integers(1, 2))
    modes = ['poll'] if port == 'pqueue' else ['poll', 'receive', 'iter_pending', 'iterate']
    if nrec == 1:
        recs = [{'mode': draw(st.sampled_from(modes)), 'quota': total}]
    else:
        q = draw(st.integers(0, total))
        recs = [{'mode': draw(st.sampled_from(modes)), 'quota': q},
                {'mode': draw(st.sampled_from(modes)), 'quota': total - q}]
    prog = {'port': port, 'senders': senders, 'receivers': recs,
            'sysex': draw(st.sampled_from([False, True, 'rt'] if port in ('echo', 'keep') else [False, True])),
            'mutate': draw(st.booleans()), 'shuffle': draw(st.integers(0, 1))}
    sched = draw(st.lists(st.sampled_from([0, 0, 0, 0, 0, 0, 0, 0, 0, 1, 2, 3]), max_size=600))
    return {'prog': prog, 'sched': sched, 'first': draw(st.integers(0, 4))}


def hyp_shard(rec, shard):
    k, n = shard

    def body(case):
        return do(rec, case)
    rec.hyp(drawn_cases(), n, body=body, seed_offset=k)


def main(ctx):
    progs = small_programs()
    depth = 1 if ctx.tier == 'quick' else 2
    split = 1 if ctx.tier == 'quick' else 16
    # (two preemptions for the port kinds of the property statement; the device doubles added later - keep, wire-direct -
    # and the programs that can be preempted inside the codec get one preemption plus the windowed pairs below)
    def depth_of(prog):
        return 1 if (prog['port'] in ('keep', 'wire-direct') or prog.get('deep')) else depth
    shards = [(pi, depth_of(progs[pi]), k, split) for pi in range(len(progs)) for k in range(split)]
    ctx.pmap('enum_shard', shards)
    ctx.extra['programs_enumerated'] = len(progs)
    ctx.extra['preemption_bound'] = depth
    ctx.exhaustive = True
    ctx.extra['exhaustive_scope'] = (f'every schedule with at most {depth} preemption(s) and every starting thread of '
                                     f'{len(progs)} fixed small programs (the later device doubles keep / wire-direct and the '
                                     f'codec-preemptible programs: at most 1); larger programs / denser schedules sampled')
    if ctx.tier == 'quick':
        ctx.pmap('window_shard', [(w, k, 8) for w in ((0, 1, 2, 3) if not ctx.reduced else (0, 1)) for k in range(8)])
        if not ctx.reduced:
            ctx.pmap('triple_shard', [(w, k, 4) for w in (0, 1) for k in range(4)])
    else:
        ctx.pmap('triple_shard', [(w, k, 8) for w in range(4) for k in range(8)])
    # volume: a long backlog through MultiPort / echo / wire in one go (non-preemptive schedule and one preemption)
    for port in ('multi', 'echo', 'wire', 'pqueue'):
        copies = 2 if port == 'multi' else 1
        prog = {'port': port, 'senders': [300], 'receivers': [{'mode': 'poll', 'quota': 300 * copies}]}
        for first, sched in ((0, []), (1, []), (0, [[2000, 1]])):
            do(ctx, {'prog': prog, 'sched': sched, 'first': first})
    # a backlog beyond 2**17 on one port (sequential: the exactly-once clause does not need a second thread for this)
    ctx.check({'kind': 'backlog', 'n': 140000 if not ctx.reduced else 3000}, sample=False)
    for n, bad in ((2, 0), (2, 1), (3, 1), (3, 2)):
        for per in (1, 3):
            for how in ('poll', 'iter_pending'):
                for order in ('keep', 'reverse'):
                    ctx.check({'kind': 'subport-fault', 'n': n, 'bad': bad, 'per': per, 'how': how, 'order': order},
                              classes=('multiport-sub-port-fault',), sample=(n == 3 and bad == 1 and per == 3))
    n = 160 if ctx.tier == 'quick' else 6000
    ctx.pmap('hyp_shard', [(k, n // 8) for k in range(8)])
