#!/usr/bin/env python3
"""Regenerate MANIFEST.json from the table below (kept in one place so that it is always valid)."""
import json
import os

HERE = os.path.dirname(os.path.dirname(os.path.abspath(__file__)))

# pid -> (level, design_ref, technique, level text, level note)
CHECKS = {}


def add(pid, level, technique, text, note):
    CHECKS[pid] = dict(level=level, technique=technique, text=text, note=note)


TRUST = ('Trusted base: CPython 3.12, Hypothesis 6.168, the harness in lib/harness.py and the independent reference '
         'codecs in lib/ref*.py (written from the MIDI 1.0 / SMF specifications and the user documentation).')

add('C01', 'exploration', 'exhaustive enumeration of the finite message space + Hypothesis, reference-codec oracle',
    'Complete enumeration of all 1,331,463 non-sysex messages (both tiers) plus Hypothesis-drawn sysex payloads and '
    'times; every case is compared with an independent MIDI 1.0 encoder/decoder, so symmetric encoder/decoder errors '
    'are visible. Exhaustive for the finite part, sampled for sysex length/content and time values.',
    TRUST + ' Sysex payloads beyond 100,000 bytes and NaN/inf times are not explored.')

NOT_YET = {}


def main():
    props = [json.loads(line) for line in open(os.path.join(HERE, 'properties.jsonl'))]
    checks = []
    na = []
    for p in props:
        pid = p['id']
        if pid in CHECKS:
            c = CHECKS[pid]
            checks.append({
                'property_id': pid,
                'quick_cmd': f'./check {pid} --tier quick',
                'thorough_cmd': f'./check {pid} --tier thorough',
                'evidence_file': f'evidence/{pid}.json',
                'replay_cmd_template': f'./check {pid} --replay {{path}}',
                'engine': 'pbt-harness',
                'level_claimed': {'category': c['level'], 'text': c['text'], 'design_ref': f'DESIGN.md section 3, {pid}'},
                'level_note': c['note'],
                'technique': c['technique'],
            })
        else:
            na.append({'property_id': pid, 'reason': NOT_YET.get(
                pid, 'check not built yet in this revision (property-based check planned, see DESIGN.md section 3)')})
    man = {
        'version': 1,
        'setup_cmd': ('/venv/bin/pip install --quiet --no-index --find-links /opt/veriftools/wheels '
                      '--target /verif/.deps hypothesis atheris'),
        'hooks': {
            'guard': 'MIDO_MIDO_VERIF',
            'enable': 'no source hooks are needed: checks patch module attributes at run time inside their own process; '
                      './check exports MIDO_MIDO_VERIF=1 for uniformity',
            'baseline_off_cmd': 'cd /repo && /venv/bin/python -m pytest -ra -q -p no:cacheprovider --timeout=900 '
                                '--continue-on-collection-errors',
            'source_commits': [],
            'add_only': True,
        },
        'engines': [{
            'name': 'pbt-harness',
            'path': 'run_check.py',
            'serves_properties': sorted(CHECKS),
            'kind_free_text': 'Hypothesis strategies / rule-based state machines, exhaustive itertools enumeration on a '
                              '16-process pool, deterministic thread scheduler, atheris fuzz targets; explicit oracles '
                              '(reference codecs, metamorphic relations, models); shrunk failures become replay files',
        }],
        'checks': checks,
        'not_applicable': na,
        'notes': 'All checks import mido from /repo\'s current working tree (MIDO_REPO overrides for scratch copies). '
                 'Exit 0 held / 1 violation / 2 harness error. VERIF_SEED selects the Hypothesis seed.',
    }
    with open(os.path.join(HERE, 'MANIFEST.json'), 'w') as f:
        json.dump(man, f, indent=1)
        f.write('\n')
    print('claimed', len(checks), 'not_applicable', len(na))


if __name__ == '__main__':
    main()
