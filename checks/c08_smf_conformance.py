"""C08 - file bytes conform to the Standard MIDI File format in both directions."""
import contextlib
import io

from hypothesis import strategies as st

import mido
from lib import refmeta as M
from lib import refmidi as R
from lib import refsmf as F
from lib import strategies as S
from lib.harness import exc_sig, fail

PID = 'C08'
LEVEL = 'exploration'
RULE = ('Write direction: Hypothesis files (channel messages in runs and broken runs, system common, sysex, known and '
        'unknown meta, deltas at all VLQ boundaries, end_of_track anywhere) are saved and the bytes are decoded by an '
        'independent strict SMF decoder: no conformance flag (header length 6, track count, exact chunk lengths, minimal '
        'VLQs, running status only directly after a channel message of the same status, sysex F0 <len> .. F7, FF 2F 00 '
        'last) and the decoded events must equal the events computed from the in-memory objects with the reference '
        'codecs. Read direction: abstract event lists are encoded by the independent encoder under drawn choices '
        '(running status on any subset of legal positions, 0-2 padding bytes on every delta / length, header chunk of '
        '6..14 bytes) and loaded with debug x clip (all 4); all must give exactly the event list. Clip clause: 1-3 data '
        'bytes replaced by 128..255 (not the first data byte of a running-status event, not a leading F0 of a sysex '
        'payload): clip=False raises OSError/ValueError, clip=True equals the expectation with those bytes = 127. '
        'Non-trivial: write = a running-status opportunity and a meta/sysex between two equal-status channel messages; '
        'read = running status used, a padded VLQ or a long header. Distinct by hash of the case.'
        ' Later additions: arbitrary bytes that the strict decoder accepts as conformant must load to the decoded'
        ' events (seed files in quick, structure-aware atheris campaign in thorough); debug output to an'
        ' ASCII-only sink when all texts are ASCII; chunks > 1 MiB.')
ASSUMPTIONS = ['reference encoder/decoder lib/refsmf.py follow the SMF 1.0 specification',
               'deltas are kept <= 0x0FFFFFFF so that every VLQ fits the 4-byte limit of the standard']


def build_file(fd):
    tracks = [mido.MidiTrack([M.to_mido(d) for d in tr]) for tr in fd['tracks']]
    return mido.MidiFile(type=fd['type'], ticks_per_beat=fd['tpb'], tracks=tracks)


def check_write(fd):
    # history: the same events were written under another text encoding earlier in this process (round 13: a cache of
    # encoded texts keyed on the text alone); what that save does is not examined here
    try:
        early = build_file(fd)
        early.charset = 'utf-16-le'
        early.save(file=io.BytesIO())
    except Exception:  # noqa: BLE001
        pass
    try:
        buf = io.BytesIO()
        build_file(fd).save(file=buf)
        b = buf.getvalue()
    except Exception as exc:  # noqa: BLE001
        return [fail('save-raises', f'{exc!r}', exc=exc_sig(exc))]
    try:
        header, tracks, flags = F.strict_decode(b)
    except F.SMFError as exc:
        return [fail('nonconformant', f'strict decoder: {exc}; bytes={list(b)[:80]}', why=str(exc)[:40])]
    out = []
    if flags:
        out.append(fail('conformance-flag', f'{flags[:4]}; bytes={list(b)[:80]}', flag=flags[0].split(':')[0][:30]))
    if header != (fd['type'], len(fd['tracks']), fd['tpb'], 6):
        out.append(fail('header', f'{header} != {(fd["type"], len(fd["tracks"]), fd["tpb"], 6)}'))
    if len(tracks) != len(fd['tracks']):
        out.append(fail('track-count', f'{len(tracks)} != {len(fd["tracks"])}'))
        return out
    for ti, (got, tr) in enumerate(zip(tracks, fd['tracks'])):
        want = F.expected_events(F.canon_track(tr))
        if got != want:
            k = next((i for i, (a, c) in enumerate(zip(got, want)) if a != c), min(len(got), len(want)))
            out.append(fail('events-differ', f'track {ti} event {k}: file has {got[k:k + 2]} expected {want[k:k + 2]}',
                            kind=(want[k][0] if k < len(want) else 'extra')))
    return out


def _ascii_safe(tracks):
    return all(v.isascii() for tr in tracks for d in tr for v in d.values() if isinstance(v, str))


def _load(b, debug, clip, ascii_only=False):
    # When the file holds no non-ASCII text, its debug output (byte dump + message reprs) is plain ASCII and has to
    # work on an ASCII-only stream as well (a pipe under LANG=C, PYTHONIOENCODING=ascii).
    sink = io.TextIOWrapper(io.BytesIO(), encoding='ascii', errors='strict') if ascii_only else io.StringIO()
    with contextlib.redirect_stdout(sink):
        return mido.MidiFile(file=io.BytesIO(b), debug=debug, clip=clip)


def _compare(mid, fmt, tpb, tracks, what):
    out = []
    if (mid.type, mid.ticks_per_beat, len(mid.tracks)) != (fmt, tpb, len(tracks)):
        out.append(fail('read-header', f'{what}: {(mid.type, mid.ticks_per_beat, len(mid.tracks))} != '
                                       f'{(fmt, tpb, len(tracks))}'))
        return out
    for ti, (lt, tr) in enumerate(zip(mid.tracks, tracks)):
        if len(lt) != len(tr):
            out.append(fail('read-track-length', f'{what}: track {ti}: {len(lt)} messages, expected {len(tr)}'))
            continue
        for mi, (m, d) in enumerate(zip(lt, tr)):
            why = M.same(m, d)
            if why:
                out.append(fail('read-message', f'{what}: track {ti} message {mi}: {why}; got {m!r} expected {d}',
                                type=d['type']))
                break
    return out


def check_read(case):
    fd = case['file']
    b, used_rs = F.encode_file(fd['type'], fd['tpb'], fd['tracks'], case['choices'])
    out = []
    for debug in (False, True):
        for clip in (False, True):
            what = f'debug={debug} clip={clip}'
            try:
                mid = _load(b, debug, clip, _ascii_safe(fd['tracks']))
            except Exception as exc:  # noqa: BLE001
                out.append(fail('read-raises', f'{what}: {exc!r}; bytes={list(b)[:80]}', exc=exc_sig(exc),
                                cfg=what))
                continue
            out += _compare(mid, fd['type'], fd['tpb'], fd['tracks'], what)
    return out


def corrupt_positions(fd, choices):
    """Offsets (into the encoded file) of data bytes that may be corrupted, with (track, event, field) info."""
    b, _ = F.encode_file(fd['type'], fd['tpb'], fd['tracks'], choices)
    extra = choices.get('header_extra', 0)
    pos = 14 + extra
    spots = []
    for ti, tr in enumerate(fd['tracks']):
        pos += 8
        running = None
        for ei, d in enumerate(tr):
            ch = (choices.get('ev') or [[]] * len(fd['tracks']))[ti]
            c = ch[ei] if ei < len(ch) else [False, 0, 0]
            pos += len(F.padded_vlq(d['time'], c[1]))
            if M.is_meta(d):
                p = M.payload(d)
                pos += 2 + len(F.padded_vlq(len(p), c[2])) + len(p)
                running = None
            elif d['type'] == 'sysex':
                n = len(d['data'])
                pos += 1 + len(F.padded_vlq(n + 1, c[2]))
                for k in range(n):
                    spots.append((pos + k, ti, ei, k, k == 0))
                pos += n + 1
                running = None
            else:
                enc = R.ref_encode(d)
                if enc[0] < 0xF0 and c[0] and running == enc[0]:
                    for k in range(1, len(enc)):
                        if k > 1:                       # first data byte of a running-status event is structural
                            spots.append((pos + k - 1, ti, ei, k, False))
                    pos += len(enc) - 1
                else:
                    for k in range(1, len(enc)):
                        spots.append((pos + k, ti, ei, k, False))
                    pos += len(enc)
                running = enc[0] if enc[0] < 0xF0 else None
    assert pos == len(b), (pos, len(b))
    return b, spots


def check_clip(case):
    fd = case['file']
    b, spots = corrupt_positions(fd, case['choices'])
    if not spots:
        return []
    b = bytearray(b)
    expect = {'type': fd['type'], 'tpb': fd['tpb'], 'tracks': [[dict(d) for d in tr] for tr in fd['tracks']]}
    done = 0
    for sel, val in case['corrupt']:
        off, ti, ei, k, first = spots[sel % len(spots)]
        if first and val == 0xF0:
            val = 0xF1
        b[off] = val
        d = expect['tracks'][ti][ei]
        if d['type'] == 'sysex':
            data = list(d['data'])
            data[k] = 127
            d['data'] = data
        else:
            # k-th byte of the wire encoding becomes 127: rebuild the dict from the patched encoding
            enc = R.ref_encode(fd['tracks'][ti][ei])
            cur = R.ref_encode({**d, 'time': 0})
            cur[k] = 127
            nd = R.ref_decode(cur, time=d['time'])
            expect['tracks'][ti][ei] = nd
            del enc
        done += 1
    out = []
    for debug in (False, True):
        try:
            _load(bytes(b), debug, False)
            out.append(fail('clip-off-accepts', f'debug={debug}: data byte > 127 accepted with clip=False; '
                                                f'bytes={list(b)[:80]}'))
        except (OSError, ValueError):
            pass
        except Exception as exc:  # noqa: BLE001
            out.append(fail('clip-off-wrong-exception', f'debug={debug}: {exc!r}', exc=exc_sig(exc)))
        try:
            mid = _load(bytes(b), debug, True)
        except Exception as exc:  # noqa: BLE001
            out.append(fail('clip-on-raises', f'debug={debug}: {exc!r}; bytes={list(b)[:80]}', exc=exc_sig(exc)))
            continue
        out += _compare(mid, expect['type'], expect['tpb'], expect['tracks'], f'clip=True debug={debug}')
    return out


BENIGN = ('header-length-not-6', 'vlq-not-minimal:delta', 'vlq-not-minimal:meta-length', 'vlq-not-minimal:sysex-length')


def events_to_dicts(evs):
    """Reference event tuples -> message dicts, or None when the event list contains something this decoder makes no
    claim about (a known meta type whose payload has to be interpreted; only end_of_track, set_tempo, the text types and
    unknown meta types are taken at byte level)."""
    out = []
    for kind, delta, info in evs:
        if kind == 'midi':
            d = R.ref_decode(info, time=delta)
            if 'data' in d:
                d['data'] = list(d['data'])
            out.append(d)
        elif kind == 'sysex':
            out.append({'type': 'sysex', 'data': list(info), 'time': delta})
        else:
            mtype, pay = info
            if mtype == 0x2F and not pay:
                out.append({'type': 'end_of_track', 'time': delta})
            elif mtype == 0x51 and len(pay) == 3:
                out.append({'type': 'set_tempo', 'tempo': (pay[0] << 16) | (pay[1] << 8) | pay[2], 'time': delta})
            elif mtype in M.BY_TYPE_BYTE and M.BY_TYPE_BYTE[mtype] in M.TEXT_TYPES:
                name = M.BY_TYPE_BYTE[mtype]
                out.append({'type': name, M.TEXT_TYPES[name][1]: bytes(pay).decode('latin1'), 'time': delta})
            elif mtype not in M.KNOWN_TYPE_BYTES and mtype < 0x80:
                out.append({'type': 'unknown_meta', 'type_byte': mtype, 'data': list(pay), 'time': delta})
            else:
                return None
    return out


def conformant_content(raw):
    """(format, division, tracks as message dicts) when the independent strict decoder accepts the bytes as a conformant
    file whose events it can name; None otherwise (then nothing is claimed about them)."""
    b = bytes(raw)
    try:
        (fmt, ntrks, div, hlen), tracks, flags = F.strict_decode(b)
    except (F.SMFError, ValueError, IndexError, KeyError):
        return None
    if any(f not in BENIGN for f in flags) or fmt not in (0, 1, 2) or div >= 0x8000 or div == 0 or ntrks != len(tracks):
        return None
    if 8 + hlen + sum(8 for _ in tracks) > len(b):
        return None
    want = []
    for evs in tracks:
        ds = events_to_dicts(evs)
        if ds is None:
            return None
        want.append(ds)
    return fmt, div, want


def check_bytes(raw):
    """Arbitrary bytes (coverage-guided fuzzing): when the independent strict decoder finds them to be a conformant
    file - apart from the liberties the property allows a reader to meet - mido must load exactly the decoded events."""
    content = conformant_content(raw)
    if content is None:
        return []
    fmt, div, want = content
    b = bytes(raw)
    out = []
    for debug in (False, True):
        what = f'debug={debug}'
        try:
            mid = _load(b, debug, False)
        except Exception as exc:  # noqa: BLE001
            out.append(fail('read-raises', f'{what}: {exc!r}; conformant bytes={list(b)[:80]}', exc=exc_sig(exc), cfg=what))
            continue
        out += _compare(mid, fmt, div, want, what)
    return out


def run_case(case):
    k = case['kind']
    if k == 'custom-spec':
        # read direction for a meta type registered through the documented hook: the check is C09's
        from checks import c09_meta_codec as C09
        return [f for f in C09.check_custom_spec() if f['clause'] in ('track-differs', 'raises')]
    if k == 'bytes':
        return check_bytes(case['bytes'])
    if k == 'write':
        return check_write(case['file'])
    if k == 'read':
        return check_read(case)
    if k == 'clip':
        return check_clip(case)
    raise KeyError(k)


def _rs_opportunity_with_break(tr):
    last = None
    broke = False
    opp = False
    hit = False
    for d in tr:
        if d['type'] in R.CHANNEL_TYPES:
            st_ = (d['type'], d['channel'])
            if last == st_:
                if broke:
                    hit = True
                else:
                    opp = True
            last = st_
            broke = False
        elif d['type'] != 'end_of_track':
            broke = True
    return opp and hit


def nontrivial(case):
    k = case['kind']
    if k in ('bytes', 'custom-spec'):
        return False
    if k == 'write':
        return any(_rs_opportunity_with_break(tr) for tr in case['file']['tracks'])
    ch = case['choices']
    if ch.get('header_extra'):
        return True
    fd = case['file']
    _, used = F.encode_file(fd['type'], fd['tpb'], fd['tracks'], ch)
    return used > 0 or any(c[1] or c[2] for tr in (ch.get('ev') or []) for c in tr)


SMALLD = st.one_of(st.sampled_from([0, 0, 1, 127, 128, 16383, 16384, 2097151, 2097152]), st.integers(0, 2 ** 22))


@st.composite
def write_cases(draw):
    if draw(st.booleans()):
        fd = draw(S.file_dicts(eot='final', time=S.deltas()))
    else:
        fd = draw(S.file_dicts(eot='mixed', time=SMALLD))
    return {'kind': 'write', 'file': fd}


@st.composite
def read_cases(draw, clip=False):
    fd = draw(S.file_dicts(eot='final', time=S.deltas(), syscommon=False, max_events=10))
    ev = [[[draw(st.booleans()), draw(st.sampled_from([0, 0, 1, 2])), draw(st.sampled_from([0, 0, 1, 2]))]
           for _ in tr] for tr in fd['tracks']]
    choices = {'header_extra': draw(st.sampled_from([0, 0, 1, 2, 8])), 'ev': ev}
    case = {'kind': 'read', 'file': fd, 'choices': choices}
    if clip:
        case['kind'] = 'clip'
        case['corrupt'] = draw(st.lists(st.tuples(st.integers(0, 10 ** 6), st.one_of(
            st.sampled_from([128, 129, 0xF0, 0xF7, 0xFF, 0x90]), st.integers(128, 255))).map(list),
            min_size=1, max_size=3, unique_by=lambda x: x[0]))
    return case


def hyp_shard(rec, shard):
    block, k, n = shard
    if block == 'write':
        rec.hyp(write_cases(), n, label='write', seed_offset=k)
    elif block == 'read':
        rec.hyp(read_cases(), n, label='read', seed_offset=100 + k)
    else:
        rec.hyp(read_cases(clip=True), n, label='clip', seed_offset=200 + k)


def volume_cases():
    ev = [{'type': 'control_change', 'channel': i % 2, 'control': i % 128, 'value': (i * 7) % 128, 'time': i % 200} for i in range(3000)]
    ev += [{'type': 'marker', 'text': 'm' * 20000, 'time': 128}, {'type': 'sysex', 'data': [i % 128 for i in range(16500)], 'time': 0},
           {'type': 'end_of_track', 'time': 0}]
    fd = {'type': 1, 'tpb': 480, 'tracks': [ev] + [[{'type': 'end_of_track', 'time': 0}] for _ in range(270)]}
    yield {'kind': 'write', 'file': fd}
    dumps = [{'type': 'sysex', 'data': [(i * 5) % 128 for i in range(600000)], 'time': 1},
             {'type': 'control_change', 'channel': 1, 'control': 2, 'value': 3, 'time': 0},
             {'type': 'control_change', 'channel': 1, 'control': 4, 'value': 5, 'time': 9},
             {'type': 'sysex', 'data': [(i * 7) % 128 for i in range(600000)], 'time': 2}, {'type': 'end_of_track', 'time': 0}]
    yield {'kind': 'read', 'file': {'type': 0, 'tpb': 24, 'tracks': [dumps]},
           'choices': {'header_extra': 0, 'ev': [[[True, 0, 0] for _ in dumps]]}}
    yield {'kind': 'read', 'file': fd, 'choices': {'header_extra': 3, 'ev': [[[i % 3 != 0, i % 3, 0] for i in range(len(ev))]] +
                                                   [[[False, 0, 0]] for _ in range(270)]}}


def fuzz_seeds():
    def note(tm, n):
        return {'type': 'note_on', 'channel': 1, 'note': n, 'velocity': 64, 'time': tm}
    files = [
        (1, 480, [[note(0, 60), note(480, 62), {'type': 'end_of_track', 'time': 0}],
                  [{'type': 'text', 'text': 'hi', 'time': 0}, {'type': 'sysex', 'data': [1, 2], 'time': 200},
                   {'type': 'end_of_track', 'time': 1}]]),
        (0, 96, [[{'type': 'set_tempo', 'tempo': 250000, 'time': 0}, {'type': 'unknown_meta', 'type_byte': 0x60,
                                                                     'data': [1, 2, 3], 'time': 16384},
                  {'type': 'songpos', 'pos': 300, 'time': 0}, {'type': 'end_of_track', 'time': 0}]]),
    ]
    out = []
    for fmt, tpb, tracks in files:
        for rs in (False, True):
            ch = {'ev': [[[rs, k % 2, k % 3] for k, _ in enumerate(t)] for t in tracks], 'header_extra': 2 if rs else 0}
            out.append(F.encode_file(fmt, tpb, tracks, ch)[0])
    # seeds in the structure-aware layout of fuzz/target.py: 4 header bytes, then the track bodies without framing
    for fmt, tpb, tracks in files:
        body = bytes(F.encode_track([d for d in tracks[0] if d['type'] != 'end_of_track'], None)[0])
        out.append(bytes([fmt, 0, (tpb - 1) >> 8, (tpb - 1) & 255]) + body)
    return out


def main(ctx):
    ctx.check({'kind': 'custom-spec'}, classes=('custom-meta-spec',), sample=False)
    for b in fuzz_seeds():
        if len(b) >= 4 and b[:4] == b'MThd':
            if conformant_content(b) is None:
                raise RuntimeError('a fuzz seed is not judged conformant by the reference decoder')
            ctx.check({'kind': 'bytes', 'bytes': list(b)}, classes=('bytes',), sample=False)
    if ctx.tier == 'thorough' and not ctx.reduced:
        from lib.harness import run_fuzz
        run_fuzz(ctx, 'C08', 400000, fuzz_seeds(), max_len=160)
    for case in volume_cases():
        ctx.check(case, sample=False)
    n = 1500 if ctx.tier == 'quick' else 20000
    w = 5 if ctx.tier == 'quick' else 16
    ctx.pmap('hyp_shard', [('write', k, n // w) for k in range(w)] + [('read', k, n // w) for k in range(w)] +
             [('clip', k, n // w) for k in range(w)])
