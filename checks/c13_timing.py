"""C13 - playback timing follows the tempo map."""
from fractions import Fraction

from hypothesis import strategies as st

import mido
import mido.midifiles.midifiles as mf
from lib import refmeta as M
from lib import refsmf as F
from lib.harness import exc_sig, fail

PID = 'C13'
LEVEL = 'exploration'
RULE = ('Hypothesis: type 0/1 files, ticks_per_beat from {1,2,24,96,480,32767} and random, 1-4 tracks, 0-5 set_tempo '
        'events anywhere (any track, tied with other events, tempo 0, 1, 16777215, below ticks_per_beat, random), deltas '
        'around tempo changes non-zero; type 2 files; play(): meta_messages on/off, drawn consumer delays (0, shorter than '
        'the next gap, longer than several gaps) and oversleep amounts >= 0 on a fake clock; unit functions over ticks '
        '0..2**32, ticks_per_beat 1..32767, tempo 1..16777215 (biased to tempo < ticks_per_beat and to limits). Oracle: '
        'exact rational tempo map over the reference merge order: per-message seconds within 1e-12 relative, 0 for zero '
        'deltas, cumulative and length within 1e-9; type 2 raises for both; play() yields exactly the iteration\'s messages '
        '(metas filtered unless requested), never before its scheduled time, and the recorded sleep calls equal a '
        'simulation of "sleep exactly the remaining time" (no drift); second2tick(tick2second(t)) == t. Non-trivial = a '
        'set_tempo != 500000 at tick > 0 followed by a positive delta (iter) / a consumer delay longer than the following '
        'gap and a later gap long enough to catch up (play); distinct by hash.'
        ' Later additions: notation/routing meta events in the files (time signatures other than x/4 etc.), an'
        ' observation nested in a running iteration, length after an in-place edit, a consumer editing yielded'
        ' messages, two threads iterating different files under the deterministic scheduler (one or two close'
        ' preemptions in units.py / midifiles.py / tracks.py).')
ASSUMPTIONS = ['floating point tolerance: relative 1e-12 per message (measured error <= 2.5e-16), 1e-9 for sums',
               'time.sleep as seen by mido.midifiles.midifiles is replaced by a fake; no wall clock is read']


def build(fd):
    tracks = [mido.MidiTrack([M.to_mido(d) for d in tr]) for tr in fd['tracks']]
    return mido.MidiFile(type=fd['type'], ticks_per_beat=fd['tpb'], tracks=tracks)


def exact_schedule(fd):
    """[(message dict with delta ticks, exact delta seconds, exact cumulative seconds)] in reference merge order."""
    merged = F.merge_model(fd['tracks'])
    tempo = 500000
    out = []
    cum = Fraction(0)
    for d in merged:
        ds = Fraction(d['time'] * tempo, 10 ** 6 * fd['tpb'])
        cum += ds
        out.append((d, ds, cum))
        if d['type'] == 'set_tempo':
            tempo = d['tempo']
    return out


def close(a, exact, rel):
    exact = float(exact)
    return abs(a - exact) <= rel * max(abs(exact), 1e-300) or a == exact


def check_iter(fd):
    try:
        mid = build(fd)
        got = list(mid)
        length = mid.length
    except Exception as exc:  # noqa: BLE001
        return [fail('raises', f'{exc!r}', exc=exc_sig(exc))]
    sched = exact_schedule(fd)
    out = []
    if len(got) != len(sched):
        return [fail('message-count', f'{len(got)} yielded, expected {len(sched)}')]
    cum = 0.0
    for i, (m, (d, ds, ecum)) in enumerate(zip(got, sched)):
        why = M.same(m.copy(time=0), {**d, 'time': 0})
        if why:
            out.append(fail('order', f'position {i}: {why}; got {m!r} expected {d}', type=d['type']))
            break
        if d['time'] == 0:
            if m.time != 0:
                out.append(fail('zero-delta', f'position {i}: zero delta gives time {m.time!r}'))
                break
        elif not isinstance(m.time, (int, float)) or not close(m.time, ds, 1e-12):
            out.append(fail('seconds', f'position {i} ({d["type"]}, {d["time"]} ticks): time {m.time!r}, exact '
                                       f'{float(ds)!r}; tpb={fd["tpb"]}', afterTempo=str(any(
                                           x[0]['type'] == 'set_tempo' for x in sched[:i]))))
            break
        cum += m.time
        if not close(cum, ecum, 1e-9):
            out.append(fail('cumulative', f'position {i}: cumulative {cum!r}, exact {float(ecum)!r}'))
            break
    # a second pass started while the first is between two messages must not disturb the first (and vice versa)
    if not out and len(sched) >= 2:
        try:
            k = len(sched) // 2
            outer = []
            for i, m in enumerate(mid):
                outer.append(m.time)
                if i == k:
                    inner_len = mid.length
                    inner = [x.time for x in mid]
                    if not close(inner_len, sched[-1][2], 1e-9) or inner != [x.time for x in got]:
                        out.append(fail('nested-iteration', 'length / iteration started inside a running iteration is wrong'))
            if outer != [x.time for x in got]:
                out.append(fail('nested-iteration', f'times of a pass with a nested pass after message {k}: {outer[:8]} '
                                                    f'expected {[x.time for x in got][:8]}'))
        except Exception as exc:  # noqa: BLE001
            out.append(fail('raises', f'nested iteration: {exc!r}', exc=exc_sig(exc)))
    # the consumer may do what it likes with the messages it is handed, also while the iteration is still running
    if not out:
        try:
            times = []
            for m in mid:
                times.append(m.time)
                m.time = 123.0
                if m.type == 'set_tempo':
                    m.tempo = 1
            if times != [x.time for x in got]:
                out.append(fail('consumer-edit', f'times change when the consumer edits yielded messages: {times[:8]} vs '
                                                 f'{[x.time for x in got][:8]}'))
        except Exception as exc:  # noqa: BLE001
            out.append(fail('raises', f'iteration with an editing consumer: {exc!r}', exc=exc_sig(exc)))
    # length follows an in-place edit made after it was read once
    if not out and fd['tracks']:
        try:
            extra = {'type': 'note_on', 'channel': 0, 'note': 1, 'velocity': 1, 'time': 480}
            mid.tracks[0].append(M.to_mido(extra))
            fd2 = dict(fd, tracks=[list(fd['tracks'][0]) + [extra]] + [list(t) for t in fd['tracks'][1:]])
            s2 = exact_schedule(fd2)
            if not close(mid.length, s2[-1][2], 1e-9):
                out.append(fail('length-stale', f'length after appending a message: {mid.length!r}, exact '
                                                f'{float(s2[-1][2])!r}'))
            del mid.tracks[0][-1]
        except Exception as exc:  # noqa: BLE001
            out.append(fail('raises', f'length after edit: {exc!r}', exc=exc_sig(exc)))
    # ... and an edit that keeps every track object and every track length: a tempo value, a delta time
    if not out:
        try:
            fd3 = dict(fd, tracks=[[dict(d) for d in t] for t in fd['tracks']])
            edited = None
            mid.length, list(mid)           # observed in its present state, then edited
            for ti, t in enumerate(fd3['tracks']):
                for mi, d in enumerate(t):
                    if d['type'] == 'set_tempo':
                        d['tempo'] = 777777 if d['tempo'] != 777777 else 333333
                        mid.tracks[ti][mi].tempo = d['tempo']
                        edited = 'a set_tempo value'
                        break
                if edited:
                    break
            if edited is None:
                for ti, t in enumerate(fd3['tracks']):
                    if t:
                        t[0]['time'] += 240
                        mid.tracks[ti][0].time += 240
                        edited = 'a delta time'
                        break
            if edited:
                s3 = exact_schedule(fd3)
                times3 = [m.time for m in mid]
                if len(times3) != len(s3) or any(not close(a, ds, 1e-12) for a, (d, ds, c) in zip(times3, s3)):
                    out.append(fail('iteration-stale', f'iteration after changing {edited} in place still gives '
                                                       f'{times3[:8]}, exact {[float(ds) for d, ds, c in s3][:8]}'))
                if not close(mid.length, s3[-1][2] if s3 else 0, 1e-9):
                    out.append(fail('length-stale', f'length after changing {edited} in place: {mid.length!r}, exact '
                                                    f'{float(s3[-1][2]) if s3 else 0.0!r}'))
        except Exception as exc:  # noqa: BLE001
            out.append(fail('raises', f'after an in-place edit: {exc!r}', exc=exc_sig(exc)))
    total = sched[-1][2] if sched else Fraction(0)
    if not close(length, total, 1e-9):
        out.append(fail('length', f'length {length!r}, exact {float(total)!r}'))
    if not close(length, Fraction(sum(m.time for m in got)), 1e-9):
        out.append(fail('length-vs-iteration', f'length {length!r} != sum of yielded times'))
    return out


def check_type2(fd):
    mid = build({**fd, 'type': 2})
    out = []
    for what, fn in (('iteration', lambda: list(mid)), ('length', lambda: mid.length),
                     ('play', lambda: list(_play(mid, False, [], [])[0]))):
        try:
            fn()
            out.append(fail('type2-accepted', f'{what} of a type 2 file did not raise', what=what))
        except (TypeError, ValueError):
            pass
        except Exception as exc:  # noqa: BLE001
            out.append(fail('type2-wrong-exception', f'{what}: {exc!r}', exc=exc_sig(exc)))
    return out


class FakeClock:
    def __init__(self, start):
        self.t = start
        self.sleeps = []
        self.over = []

    def now(self):
        return self.t

    def sleep(self, d):
        self.sleeps.append((self.t, d))
        # only a sleep of noticeable length oversleeps: a numerically-zero remainder (1e-17) may or may not lead to a
        # sleep call, and must not shift which oversleep amount the next real sleep gets
        o = (self.over.pop(0) if self.over else 0.0) if d > 1e-7 else 0.0
        self.t += (d if d > 0 else 0) + o


class FakeTime:
    """Stands in for the `time` module inside mido.midifiles.midifiles."""

    def __init__(self, clock):
        self._c = clock

    def sleep(self, d):
        self._c.sleep(d)

    def time(self):
        return self._c.now()


def _play(mid, meta, delays, overs, start=1000.0):
    clock = FakeClock(start)
    clock.over = list(overs)
    events = []
    saved = mf.time
    mf.time = FakeTime(clock)
    try:
        delays = list(delays)
        # the flag is given as a bool or as the equal int (round 13: `meta_messages is True`): a flag is a truth value
        flag = meta if len(delays) % 2 == 0 else int(bool(meta))
        for m in mid.play(meta_messages=flag, now=clock.now):
            events.append((clock.t, m))
            clock.t += delays.pop(0) if delays else 0.0
    finally:
        mf.time = saved
    return events, clock


def check_play(case):
    fd = case['file']
    meta = case['meta']
    start = case.get('start', 1000.0)
    try:
        mid = build(fd)
        ref = list(mid)
        events, clock = _play(mid, meta, case['delays'], case['overs'], start)
    except Exception as exc:  # noqa: BLE001
        return [fail('raises', f'{exc!r}', exc=exc_sig(exc))]
    out = []
    sched = exact_schedule(fd)
    want = [(m, s) for m, s in zip(ref, sched) if meta or not M.is_meta(s[0])]
    if len(events) != len(want):
        return [fail('play-count', f'play yielded {len(events)}, expected {len(want)} (meta_messages={meta})')]
    import math
    total_s = float(sched[-1][2]) if sched else 0.0
    # the fake clock holds floats: at a wall-clock-like origin (1.7e9) one ulp is 2.4e-7 s, which bounds what any
    # implementation can resolve; the tolerance is a few ulps of the largest clock value plus 1e-9 relative
    tol = 1e-9 * max(1.0, total_s) + 16 * math.ulp(abs(start) + total_s + sum(case['delays']) + sum(case['overs']) + 1.0)
    for i, ((t, m), (r, (d, ds, ecum))) in enumerate(zip(events, want)):
        if type(m) is not type(r) or not (m == r):
            out.append(fail('play-message', f'position {i}: {m!r} != iteration\'s {r!r}'))
            break
        if t - start < float(ecum) - tol:
            out.append(fail('play-early', f'position {i}: yielded at {t - start!r}, scheduled {float(ecum)!r}'))
            break
    # simulate "sleep exactly the remaining time"
    t = start
    overs = list(case['overs'])
    delays = list(case['delays'])
    exp_sleeps = []
    for d, ds, ecum in sched:
        remaining = float(ecum) - (t - start)
        if remaining > 0:
            exp_sleeps.append((t, remaining))
            t += remaining + ((overs.pop(0) if overs else 0.0) if remaining > 1e-7 else 0.0)
        if meta or not M.is_meta(d):
            t += delays.pop(0) if delays else 0.0
    got = [(a, b) for a, b in clock.sleeps]
    # ignore sleeps of (numerically) zero length on either side
    g = [(a, b) for a, b in got if b > tol]
    e = [(a, b) for a, b in exp_sleeps if b > tol]
    if any(b <= 0 for a, b in got):
        out.append(fail('sleep-nonpositive', f'sleep called with {[b for a, b in got if b <= 0][:3]}'))
    if len(g) != len(e) or any(abs(a1 - a2) > tol or abs(b1 - b2) > tol for (a1, b1), (a2, b2) in zip(g, e)):
        out.append(fail('sleep-schedule', f'sleep calls (clock, duration) {[(round(a - start, 6), round(b, 6)) for a, b in g][:8]} '
                                          f'expected {[(round(a - start, 6), round(b, 6)) for a, b in e][:8]}'))
    return out


def check_units(case):
    t, tpb, tempo = case['tick'], case['tpb'], case['tempo']
    try:
        s = mido.tick2second(t, tpb, tempo)
        back = mido.second2tick(s, tpb, tempo)
    except Exception as exc:  # noqa: BLE001
        return [fail('units-raise', f'{case}: {exc!r}', exc=exc_sig(exc))]
    out = []
    if back != t or not isinstance(back, int):
        out.append(fail('units-inverse', f'second2tick(tick2second({t}, {tpb}, {tempo})) = {back!r}',
                        small=str(tempo < tpb)))
    if not close(s, Fraction(t * tempo, 10 ** 6 * tpb), 1e-12):
        out.append(fail('tick2second', f'tick2second({t}, {tpb}, {tempo}) = {s!r}'))
    return out


TIMING_FILES = ('mido/midifiles/units.py', 'mido/midifiles/midifiles.py', 'mido/midifiles/tracks.py')
LAST_STEPS = [0]


def check_threads(case):
    """Two threads convert / iterate two different files at the same time: each gets the times the exact tempo map of
    its own file gives, wherever the thread switch falls (statement granularity in units.py / midifiles.py / tracks.py)."""
    from lib.sched import run_threads
    fds = case['files']

    def worker(fd):
        def body():
            mid = build(fd)
            times = [m.time for m in mid]
            conv = [mido.tick2second(t, fd['tpb'], tp) for t, tp in ((480, 500000), (1, 250000))]
            return times, conv, mid.length
        return body
    results, errors, steps, reason = run_threads(TIMING_FILES, [worker(fd) for fd in fds], schedule=case.get('sched'),
                                                 first=case.get('first', 0), max_steps=200000)
    LAST_STEPS[0] = steps
    if reason:
        raise RuntimeError(f'scheduler: {reason}')
    out = []
    for i, fd in enumerate(fds):
        if errors[i] is not None:
            out.append(fail('threads-raise', f'thread {i}: {errors[i]!r}', exc=exc_sig(errors[i])))
            continue
        times, conv, length = results[i]
        sched = exact_schedule(fd)
        if len(times) != len(sched) or any(not close(a, ds, 1e-12) for a, (d, ds, c) in zip(times, sched)):
            out.append(fail('threads-times', f'thread {i}: times {times[:8]} differ from the tempo map of its own file '
                                             f'{[float(ds) for d, ds, c in sched][:8]} while another thread works on '
                                             f'another file'))
        want = [Fraction(480 * 500000, 10 ** 6 * fd['tpb']), Fraction(250000, 10 ** 6 * fd['tpb'])]
        if any(not close(a, w, 1e-12) for a, w in zip(conv, want)):
            out.append(fail('threads-units', f'thread {i}: tick2second gives {conv}, exact {[float(w) for w in want]}'))
        if not close(length, sched[-1][2] if sched else 0, 1e-9):
            out.append(fail('threads-length', f'thread {i}: length {length}'))
    return out


def run_case(case):
    k = case['kind']
    if k == 'threads':
        return check_threads(case)
    if k == 'iter':
        return check_iter(case['file'])
    if k == 'type2':
        return check_type2(case['file'])
    if k == 'play':
        return check_play(case)
    if k == 'units':
        return check_units(case)
    raise KeyError(k)


def nontrivial(case):
    k = case['kind']
    if k == 'threads':
        return bool(case.get('sched'))
    if k == 'units':
        return case['tick'] > 0
    if k == 'type2':
        return any(case['file']['tracks'])
    sched = exact_schedule(case['file'])
    if k == 'iter':
        seen = False
        tick = 0
        for d, ds, c in sched:
            tick += d['time']
            if seen and d['time'] > 0:
                return True
            if d['type'] == 'set_tempo' and d['tempo'] != 500000 and tick > 0:
                seen = True
        return False
    gaps = [float(ds) for d, ds, c in sched if case['meta'] or not M.is_meta(d)]
    dl = case['delays']
    late = any(i + 1 < len(gaps) and dl[i] > gaps[i + 1] > 0 for i in range(min(len(dl), len(gaps))))
    return late and len(gaps) >= 3


TEMPOS = st.one_of(st.sampled_from([0, 1, 2, 100, 479, 480, 32766, 250000, 500000, 16777215]), st.integers(0, 16777215),
                   st.integers(1, 40000))
TPB = st.one_of(st.sampled_from([1, 2, 24, 96, 480, 960, 32767]), st.integers(1, 32767))
DELTA = st.one_of(st.sampled_from([0, 0, 1, 1, 2, 24, 96, 480, 481, 960]), st.integers(0, 3000), st.integers(0, 2 ** 24))


OTHER_METAS = ([M.default_meta('time_signature', numerator=n, denominator=dn) for n, dn in
                ((6, 8), (2, 2), (12, 8), (3, 4), (4, 4), (7, 16), (1, 1), (5, 2 ** 10))] +
               [M.default_meta('key_signature', key='F#m'), M.default_meta('smpte_offset', frame_rate=25, hours=1),
                M.default_meta('channel_prefix', channel=3), M.default_meta('midi_port', port=2),
                M.default_meta('sequence_number', number=7),
                {'type': 'unknown_meta', 'type_byte': 0x60, 'data': [1, 2], 'time': 0}])


@st.composite
def timing_files(draw, small=False):
    ftype = draw(st.sampled_from([0, 1, 1]))
    nt = 1 if ftype == 0 else draw(st.integers(1, 4))
    tpb = draw(st.sampled_from([1, 2, 24, 96, 480]) if small else TPB)
    dl = st.sampled_from([0, 1, 2, 48, 96, 240, 480]) if small else DELTA
    tag = 0
    tracks = []
    for _ in range(nt):
        tr = []
        for _ in range(draw(st.integers(0, 8 if not small else 6))):
            kind = draw(st.sampled_from(['note', 'note', 'tempo', 'text', 'cc', 'eot', 'other-meta']))
            tm = draw(dl)
            if kind == 'note':
                tr.append({'type': 'note_on', 'channel': tag % 16, 'note': tag % 128, 'velocity': 1, 'time': tm})
            elif kind == 'cc':
                tr.append({'type': 'control_change', 'channel': 0, 'control': tag % 128, 'value': 2, 'time': tm})
            elif kind == 'tempo':
                tp = draw(st.sampled_from([250000, 500000, 1000000, 125000, 2000000]) if small else TEMPOS)
                tr.append({'type': 'set_tempo', 'tempo': tp, 'time': tm})
            elif kind == 'text':
                tr.append({'type': 'marker', 'text': f't{tag}', 'time': tm})
            elif kind == 'other-meta':
                # meta events that describe notation or routing: none of them has any say in the timing
                d = draw(st.sampled_from(OTHER_METAS))
                tr.append({**d, 'time': tm})
            elif draw(st.integers(0, 2)) == 0:
                tr.append({'type': 'end_of_track', 'time': tm})
            tag += 1
        if draw(st.booleans()):
            tr.append({'type': 'end_of_track', 'time': draw(dl)})
        tracks.append(tr)
    return {'type': ftype, 'tpb': tpb, 'tracks': tracks}


@st.composite
def play_cases(draw):
    fd = draw(timing_files(small=True))
    n = sum(len(t) for t in fd['tracks']) + 2
    delays = draw(st.lists(st.sampled_from([0.0, 0.0, 0.001, 0.01, 0.05, 0.3, 0.6, 1.7, 5.0]), min_size=n, max_size=n))
    overs = draw(st.lists(st.sampled_from([0.0, 0.0, 0.0, 0.0005, 0.02, 0.4]), min_size=n, max_size=n))
    return {'kind': 'play', 'file': fd, 'meta': draw(st.booleans()), 'delays': delays, 'overs': overs,
            'start': draw(st.sampled_from([0.0, 1000.0, 1.7e9]))}


def hyp_shard(rec, shard):
    block, k, n = shard
    if block == 'iter':
        rec.hyp(st.fixed_dictionaries({'kind': st.just('iter'), 'file': timing_files()}), n, seed_offset=k)
    elif block == 'play':
        rec.hyp(play_cases(), n, seed_offset=100 + k)
    elif block == 'type2':
        rec.hyp(st.fixed_dictionaries({'kind': st.just('type2'), 'file': timing_files(small=True)}), n,
                seed_offset=200 + k)
    else:
        units = st.fixed_dictionaries({
            'kind': st.just('units'),
            'tick': st.one_of(st.sampled_from([0, 1, 2, 479, 480, 2 ** 31, 2 ** 32]), st.integers(0, 2 ** 32),
                              st.integers(0, 5000)),
            'tpb': TPB,
            'tempo': st.one_of(st.sampled_from([1, 2, 3, 479, 480, 32766, 32767, 500000, 16777215]),
                               st.integers(1, 16777215), st.integers(1, 40000))})
        rec.hyp(units, n, seed_offset=300 + k)


def thread_shard(rec, shard):
    k, n = shard

    def note(tm, ch):
        return {'type': 'note_on', 'channel': ch, 'note': 60, 'velocity': 64, 'time': tm}
    fa = {'type': 1, 'tpb': 480, 'tracks': [[note(480, 0), {'type': 'set_tempo', 'tempo': 250000, 'time': 0}, note(480, 0)]]}
    fb = {'type': 1, 'tpb': 96, 'tracks': [[note(96, 1), {'type': 'set_tempo', 'tempo': 1000000, 'time': 48}, note(96, 1)]]}
    for first in (0, 1):
        base = {'kind': 'threads', 'files': [fa, fb], 'sched': [], 'first': first}
        rec.execute(base)
        steps = LAST_STEPS[0]
        if k == 0:
            rec.check(base, sample=False)
        for i in range(steps):
            if i % n == k:
                rec.check({'kind': 'threads', 'files': [fa, fb], 'sched': [[i, 1]], 'first': first}, distinct=True,
                          sample=(i == 40 and first == 0), classes=('threads',))
                # and a second switch shortly afterwards (back to the first thread in the middle of the other's call)
                for gap in (1, 2, 3, 5):
                    rec.check({'kind': 'threads', 'files': [fa, fb], 'sched': [[i, 1], [i + gap, 1]], 'first': first},
                              distinct=True, sample=False, classes=('threads',))


def main(ctx):
    ctx.pmap('thread_shard', [(k, 16) for k in range(16)])
    n = 6000 if ctx.tier == 'quick' else 100000
    w = 8 if ctx.tier == 'quick' else 16
    ctx.pmap('hyp_shard', [('iter', k, n // w) for k in range(w)] + [('play', k, n // w) for k in range(w)] +
             [('type2', k, n // (8 * w)) for k in range(w)] + [('units', k, 2 * n // w) for k in range(w)])
    # ticks just below 2**53 where seconds-per-tick is a power of two: every step of the conversion is exact in binary
    # floating point, so the round trip has no excuse (round 14: second * 1e6 * tpb / tempo overflows the 53 bits)
    for tpb, tempo in ((1, 1000000), (2, 1000000), (4, 1000000), (1, 2000000), (1, 4000000), (8, 1000000)):
        for base in (2 ** 52, 2 ** 52 + 2 ** 40, 2 ** 53 - 16):
            for tick in range(base, min(base + 8, 2 ** 53)):
                ctx.check({'kind': 'units', 'tick': tick, 'tpb': tpb, 'tempo': tempo}, classes=('units-2^53',), sample=False)
