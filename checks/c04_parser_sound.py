"""C04 - the parser is total and sound on arbitrary byte streams."""
import itertools

from hypothesis import strategies as st

import mido
from lib import refmidi as R
from lib import strategies as S
from lib.harness import exc_sig, fail

PID = 'C04'
LEVEL = 'exploration'
RULE = ('Every string over a 14-letter byte-class alphabet (data 00/7F, 3-byte channel 90, 2-byte channel C5, pitch E3, '
        'F0, F1, F2, undefined F4, F6, F7, real-time F8, undefined real-time F9, FF) up to length 5 (quick: 579,195 '
        'strings) or 6 (thorough: 8,108,731) is enumerated, plus Hypothesis streams (up to ~2000 bytes, half of the draws '
        'status bytes / valid encodings / cut-short encodings) through every entry point and container. Oracle '
        '(invariants): no exception; each yielded object is a valid Message whose bytes() are one well-formed message; '
        'real-time messages correspond one-to-one, in order, to the defined real-time bytes of the input; the '
        'concatenated bytes of the other messages are a subsequence of the remaining input; parse() is the head of '
        'parse_all(). Non-trivial = yields at least one message and skips at least one byte; distinct by input.')
ASSUMPTIONS = ['what happens to a message in progress when an undefined status byte or a real-time byte outside sysex '
               'arrives is not fixed by the statement; only soundness is asserted here (completeness: C06)']

RT = set(R.REALTIME_BY_STATUS)
import enum  # noqa: E402
_BYTE_ENUM = enum.IntEnum('ByteEnum', {f'B{i:02X}': i for i in range(256)})


def _feed(data, entry, cont):
    if cont == 'intsub':
        from lib.vals import _IntSub
        arg = [_IntSub(b) for b in data]
    elif cont == 'enum':
        arg = [_BYTE_ENUM(b) for b in data]
    elif cont == 'bytes':
        arg = bytes(data)
    elif cont == 'bytearray':
        arg = bytearray(data)
    elif cont == 'generator':
        arg = (b for b in data)
    elif cont == 'tuple':
        arg = tuple(data)
    else:
        arg = list(data)
    if entry == 'parse_all':
        return mido.parse_all(arg)
    if entry == 'Parser':
        if cont == 'generator' and not data:
            arg = []
        return list(mido.Parser(arg))
    if entry == 'feed':
        p = mido.Parser()
        p.feed(arg)
        return list(p)
    if entry == 'feed_byte':
        p = mido.Parser()
        for b in data:
            p.feed_byte(b)
        return list(p)
    if entry in ('chunks', 'chunks3'):
        p = mido.Parser()
        n = len(data)
        cuts = [n // 2] if entry == 'chunks' else [n // 3, 2 * n // 3]
        out = []
        prev = 0
        conv = {'bytes': bytes, 'bytearray': bytearray, 'tuple': tuple, 'generator': iter}.get(cont, list)
        for c in cuts + [n]:
            p.feed(conv(data[prev:c]))
            out.extend(p)
            prev = c
        return out
    if entry == 'get_message':
        p = mido.Parser()
        p.feed(arg)
        out = []
        while True:
            m = p.get_message()
            if m is None:
                return out
            out.append(m)
    raise KeyError(entry)


def sound(data, msgs):
    """Soundness invariants 2-4; returns a reason string or None."""
    rt_out = []
    rest_out = []
    for m in msgs:
        if type(m) is not mido.Message:
            return f'yielded {type(m).__name__}'
        why = R.ref_valid_vars(vars(m))
        if why:
            return f'invalid message {m!r}: {why}'
        b = m.bytes()
        if not R.ref_is_single_message(b):
            return f'bytes() of {m!r} not one message: {b[:8]}'
        if m.type in R.REALTIME:
            rt_out.append(b[0])
        else:
            rest_out.extend(b)
    if rt_out != [b for b in data if b in RT]:
        return f'real-time mismatch: yielded {rt_out[:8]} input has {[b for b in data if b in RT][:8]}'
    it = iter(b for b in data if b not in RT)
    for want in rest_out:
        for b in it:
            if b == want:
                break
        else:
            return f'yielded bytes {rest_out[:12]} are not a subsequence of the input'
    return None


def pollute():
    """Leave OTHER parser / tokenizer instances in awkward states: a feed that raised half-way and was caught, a
    tokenizer with undrained tokens, a parser with an open sysex and pending messages."""
    from mido.tokenizer import Tokenizer
    p = mido.Parser([0xFC, 0xC1, 9, 0xF0, 1, 2])      # (first: a well-behaved parser would drain anything shared)
    try:
        mido.Parser().feed([0x90, 0x3C, 0x40, 0xF8, 0x100])
    except ValueError:
        pass
    try:
        mido.Parser().feed([0xFA, 0xB0, 1, 2, 'x'])
    except TypeError:
        pass
    t = Tokenizer([0xFB, 0x91, 1, 2, 0xF0, 5])
    return p, t


def check_stream(data, entry='parse_all', cont='list', polluted=False):
    keep = pollute() if polluted else None
    del keep
    try:
        msgs = _feed(data, entry, cont)
    except Exception as exc:  # noqa: BLE001
        return [fail('raises', f'{entry}/{cont} {data[:16]}: {exc!r}', exc=exc_sig(exc))]
    why = sound(data, msgs)
    out = []
    if why:
        out.append(fail('unsound', f'{entry}/{cont} {data[:16]}: {why}', entry=entry))
    if msgs and entry == 'parse_all':
        try:
            snap = [(m.type, dict(vars(m))) for m in msgs]
            for m in msgs:
                m.time = 99
            again = _feed(data, entry, cont)
            first_ids = {id(m) for m in msgs}
            if [(m.type, {**vars(m), 'time': 0}) for m in again] != [(t, {**v, 'time': 0}) for t, v in snap] or any(
                    id(a) in first_ids for a in again) or any(m.time != 0 for m in again):
                out.append(fail('not-repeatable', f'{data[:16]}: second parse differs from / shares objects with the first',
                                entry=entry))
        except Exception as exc:  # noqa: BLE001
            out.append(fail('raises', f'second parse of {data[:16]}: {exc!r}', exc=exc_sig(exc)))
        for m in msgs:
            m.time = 0
    try:
        first = mido.parse(list(data))
    except Exception as exc:  # noqa: BLE001
        return out + [fail('raises', f'parse {data[:16]}: {exc!r}', exc=exc_sig(exc))]
    if (first is None) != (len(msgs) == 0) or (msgs and not (first == msgs[0])):
        out.append(fail('parse-head', f'{data[:16]}: parse -> {first!r}, parse_all[0] -> {msgs[:1]!r}'))
    return out


def run_case(case):
    import mido.parser
    import mido.tokenizer
    from lib.doubles import jumping_clock
    with jumping_clock(mido.tokenizer, mido.parser):
        return check_stream(case['data'], case.get('entry', 'parse_all'), case.get('cont', 'list'), case.get('polluted', False))


def _skipped_and_yield(data):
    msgs = mido.parse_all(list(data))
    n = sum(len(m.bytes()) for m in msgs)
    return len(msgs) > 0 and n < len(data), msgs


def nontrivial(case):
    try:
        return _skipped_and_yield(case['data'])[0]
    except Exception:  # noqa: BLE001
        return False


def enum_shard(rec, shard):
    first, maxlen = shard
    A = S.CLASS_ALPHABET
    parse_all = mido.parse_all
    for n in range(0, maxlen):
        for ti, tail in enumerate(itertools.product(A, repeat=n)):
            if not rec.keep(ti, 11):
                continue
            data = [first, *tail]
            try:
                msgs = parse_all(data)
                why = sound(data, msgs)
            except Exception:  # noqa: BLE001
                why = 'raises'
            rec.evals += 1
            if why:
                rec.check({'data': data}, nontrivial=False, sample=False)
                rec.evals -= 1
                continue
            if msgs:
                rec.classes['yields'] += 1
                if sum(len(m.bytes()) for m in msgs) < len(data):
                    rec.nt_enum += 1
    rec.samples.append({'data': [first, 0x90, 0x00, 0xF8, 0x7F][:maxlen]})


def main(ctx):
    maxlen = 5 if ctx.tier == 'quick' else 6
    ctx.check({'data': []})
    ctx.pmap('enum_shard', [(a, maxlen) for a in S.CLASS_ALPHABET])
    ctx.exhaustive = True
    ctx.extra['exhaustive_scope'] = f'all strings over the 14-letter class alphabet up to length {maxlen}'
    n = 1500 if ctx.tier == 'quick' else 40000
    strat = st.fixed_dictionaries({
        'data': S.byte_stream(max_chunks=40 if ctx.tier == 'quick' else 300),
        'entry': st.sampled_from(['parse_all', 'Parser', 'feed', 'feed_byte', 'get_message', 'chunks', 'chunks3']),
        'cont': st.sampled_from(['list', 'tuple', 'bytes', 'bytearray', 'generator', 'intsub', 'enum']),
        'polluted': st.booleans(),
    })
    ctx.hyp(strat, n, label='streams')
    # volumes beyond 2**16 and 2**17: many messages in one call, one very long sysex, real-time bytes throughout
    many = []
    for i in range(45000):
        many += [0xF8] if i % 3 == 0 else [0x90 | (i % 16), i % 128, 1 + i % 100]
    ctx.check({'data': many * 2, 'entry': 'parse_all', 'cont': 'list'}, sample=False)
    long_sysex = [0x90, 1, 2, 0xF0] + [(i * 7) % 128 if i % 5000 else 0xF8 for i in range(140000)] + [0xF7, 0xFA, 0x80, 3, 4]
    for entry, cont in (('parse_all', 'bytes'), ('chunks3', 'bytes'), ('feed_byte', 'list')):
        ctx.check({'data': long_sysex, 'entry': entry, 'cont': cont}, sample=False)
    # a sysex of ordinary size arriving in three bytes-like chunks, the middle one pure payload plus one real-time
    # (or undefined real-time) byte of every kind
    for rt in (0xF8, 0xF9, 0xFA, 0xFB, 0xFC, 0xFD, 0xFE, 0xFF):
        for pos in (45, 60, 79):
            body = [(i * 5) % 128 for i in range(120)]
            body.insert(pos, rt)
            for cont in ('bytes', 'bytearray'):
                ctx.check({'data': [0xF0] + body + [0xF7, 0x90, 1, 2], 'entry': 'chunks3', 'cont': cont}, sample=False)
    if ctx.tier == 'thorough' and not ctx.reduced:
        # more than 2**20 messages waiting in one parser (thorough tier: it costs half a minute; quick stops at 2**17)
        ctx.check({'data': [0xFA] + [0xF8, 0xFE] * 540000 + [0xFC], 'entry': 'parse_all', 'cont': 'bytes'}, sample=False)
    for data in ([0xF0, 1, 0xF8, 2, 0xF7], [0xF0, 0xFA, 0xF7, 0x90, 1, 2], [0x90, 1, 0xFB, 2, 3]):
        for cont in ('intsub', 'enum'):
            for entry in ('parse_all', 'feed_byte', 'chunks'):
                ctx.check({'data': data, 'entry': entry, 'cont': cont}, sample=False)
    for data in ([], [0x90, 1, 2], [0xF8], [0xF0, 1, 0xF8, 2, 0xF7], [0x40, 0x41]):
        for entry in ('parse_all', 'feed_byte', 'chunks'):
            ctx.check({'data': data, 'entry': entry, 'cont': 'list', 'polluted': True}, sample=False)
    raw = st.fixed_dictionaries({
        'data': st.lists(st.one_of(st.integers(0, 255), st.sampled_from(S.STATUS_REPS)), max_size=400),
        'entry': st.sampled_from(['parse_all', 'feed_byte']),
        'cont': st.just('list'),
    })
    ctx.hyp(raw, n // 2, label='raw', seed_offset=1)
    if ctx.tier == 'thorough':
        from lib.harness import run_fuzz
        seeds = [bytes(R.ref_encode(R.default_msg(t))) for t in R.ALL_TYPES if t != 'sysex'] + [b'\xf0\x01\xf8\x02\xf7']
        run_fuzz(ctx, 'C04', 1000000, seeds, max_len=64)
