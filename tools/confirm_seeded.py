#!/usr/bin/env python3
"""Confirm a seeded change independently: in a scratch clone of /repo, (1) the demonstration passes without the
change, (2) with the change applied the repository's test-suite still passes and (3) the demonstration fails.
On success the change is stored as seeded/<name>/{patch.diff, demo.py, meta.json}."""
import json
import os
import shutil
import subprocess
import sys
import tempfile

HERE = os.path.dirname(os.path.dirname(os.path.abspath(__file__)))


def sh(cmd, cwd, env=None, timeout=600):
    p = subprocess.run(cmd, cwd=cwd, env=env, capture_output=True, text=True, timeout=timeout, shell=isinstance(cmd, str))
    return p.returncode, (p.stdout + p.stderr)


def main():
    src, name = sys.argv[1], sys.argv[2]
    tmp = tempfile.mkdtemp(prefix='mido_seed_')
    try:
        dst = os.path.join(tmp, 'repo')
        subprocess.run(['git', 'clone', '-q', '--no-hardlinks', '/repo', dst], check=True)
        env = dict(os.environ, PYTHONPATH=dst, PYTHONDONTWRITEBYTECODE='1')
        demo = os.path.join(src, 'demo.py')
        rc0, out0 = sh(['/venv/bin/python', '-B', demo], tmp, env, 120)
        rca, outa = sh(['git', 'apply', os.path.join(src, 'patch.diff')], dst)
        if rca != 0:
            print(name, 'PATCH DOES NOT APPLY', outa.strip()[:200])
            return 2
        rct, outt = sh('/venv/bin/python -m pytest -q -p no:cacheprovider --timeout=900 -x '
                       '--deselect tests/midifiles/test_tracks.py::test_merge_large_midifile', dst, env, 900)
        rc1, out1 = sh(['/venv/bin/python', '-B', demo], tmp, env, 120)
        ok = rc0 == 0 and rct == 0 and rc1 != 0
        print(name, 'clean demo rc', rc0, '| patched tests rc', rct, '| patched demo rc', rc1, '->', 'CONFIRMED' if ok else 'REJECTED')
        if not ok:
            print(out0[-300:], outt[-300:], out1[-300:])
            return 1
        out_dir = os.path.join(HERE, 'seeded', name)
        os.makedirs(out_dir, exist_ok=True)
        shutil.copy(os.path.join(src, 'patch.diff'), out_dir)
        shutil.copy(demo, out_dir)
        meta = json.load(open(os.path.join(src, 'meta.json')))
        meta['confirmed_by_me'] = {
            'commands': ['git clone /repo <scratch>; PYTHONPATH=<scratch> /venv/bin/python demo.py  (rc 0)',
                         'git -C <scratch> apply patch.diff; /venv/bin/python -m pytest -q (rc 0)',
                         'PYTHONPATH=<scratch> /venv/bin/python demo.py  (rc != 0)'],
            'clean_demo_rc': rc0, 'patched_tests_rc': rct, 'patched_demo_rc': rc1,
            'patched_demo_tail': out1.strip()[-400:],
        }
        json.dump(meta, open(os.path.join(out_dir, 'meta.json'), 'w'), indent=1)
        return 0
    finally:
        shutil.rmtree(tmp, ignore_errors=True)


if __name__ == '__main__':
    sys.exit(main())
