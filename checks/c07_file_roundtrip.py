"""C07 - MIDI file save then load preserves every track; unstorable contents are refused; load-save-load fixed point."""
import io

from hypothesis import strategies as st

import mido
from lib import refmeta as M
from lib import refmidi as R
from lib import refsmf as F
from lib import strategies as S
from lib.harness import exc_sig, fail

PID = 'C07'
LEVEL = 'exploration'
RULE = ('Clause 1: Hypothesis files (type 0/1/2, ticks_per_beat 1..32767, 0-4 tracks of 0-12 events: channel messages in '
        'running-status runs and breaks of such runs, system common, sysex at boundary lengths, every known meta type, '
        'unknown meta, deltas at every VLQ size boundary and beyond 2**28, end_of_track absent/final/with delta/repeated/'
        'in the middle) saved and reloaded; each loaded track must equal the reference canonical form of the original '
        '(class, attributes, deltas, order, exactly one final end_of_track carrying the trailing delta). Clause 2: the '
        'same files with one injected unstorable item (each real-time type, negative delta, non-integral float delta, '
        'type 0 with 0 or 2+ tracks) must make save raise ValueError. Clause 3: byte-level mutations of saved files '
        '(flip, insert, delete, truncate, splice, length-field edits): whatever loads must satisfy '
        'load(save(load(b))) == canonical load(b) and save be idempotent, unless save refuses for a clause-2 reason. '
        'Non-trivial: clause 1 a track with >= 2 events incl. a running-status run, meta or sysex; clause 3 a mutant '
        'that loads and whose re-saved bytes differ from it. Distinct by hash of the case.'
        ' Later additions: MidiTrack conveniences (+, *, slices, copy) as construction route, save/load by'
        ' (relative) file name over a stale longer file, files in another charset (constructor argument or'
        ' assignment), track chunks > 1 MiB, volume files, saving leaves the in-memory file unchanged; the same events'
        ' saved under another charset earlier in the process; a saved file loads the same with clip=True.')
ASSUMPTIONS = ['smpte_offset hours are generated in 0..31 (KF-C09-c is recorded under C09)',
               'sequencer_specific data is given as a tuple (KF-C09-d is recorded under C09)',
               'a load that raises (any exception type) makes no claim']


def build_file(fd, assemble='plain'):
    tracks = []
    for tr in fd['tracks']:
        msgs = [M.to_mido(d) for d in tr]
        if assemble == 'plain' or len(msgs) < 2:
            t = mido.MidiTrack(msgs)
        else:
            # the documented MidiTrack conveniences: slicing, +, *, copy(), extend, insert
            k = len(msgs) // 2
            a, b = mido.MidiTrack(msgs[:k]), mido.MidiTrack(msgs[k:])
            t = (a + b)[:]
            t = (t * 1).copy()
            last = t.pop()
            t.extend([last])
            first = t[0]
            del t[0]
            t.insert(0, first)
            if type(t) is not mido.MidiTrack:
                raise AssertionError(f'MidiTrack operations returned {type(t).__name__}')
        tracks.append(t)
    return mido.MidiFile(type=fd['type'], ticks_per_beat=fd['tpb'], tracks=tracks)


def save_bytes(mid):
    buf = io.BytesIO()
    mid.save(file=buf)
    return buf.getvalue()


def load_bytes(b, charset=None):
    if charset is not None:
        return mido.MidiFile(file=io.BytesIO(bytes(b)), charset=charset)
    return mido.MidiFile(file=io.BytesIO(bytes(b)))


def compare_tracks(loaded, fd_tracks, what):
    out = []
    if len(loaded) != len(fd_tracks):
        return [fail('track-count', f'{what}: {len(loaded)} tracks, expected {len(fd_tracks)}')]
    for ti, (lt, ot) in enumerate(zip(loaded, fd_tracks)):
        want = F.canon_track(ot)
        if len(lt) != len(want):
            out.append(fail('track-length', f'{what}: track {ti} has {len(lt)} messages, expected {len(want)}: '
                                            f'{list(lt)[:6]!r}'))
            continue
        for mi, (m, d) in enumerate(zip(lt, want)):
            why = M.same(m, d)
            if why is None and not (m == M.to_mido(d)):
                why = 'not equal under =='
            if why:
                out.append(fail('message-differs', f'{what}: track {ti} message {mi}: {why}; loaded {m!r} expected {d}',
                                type=d['type'], attr=why.split(':')[0][:20]))
                break
    return out


def check_roundtrip(fd, via='file'):
    try:
        mid = build_file(fd, 'ops' if via == 'trackops' else 'plain')
    except Exception as exc:  # noqa: BLE001
        return [fail('build-raises', f'{exc!r}', exc=exc_sig(exc))]
    out = []
    # the caller owns what merge_tracks returned earlier: scribbling on it must not reach any file saved later
    earlier = mido.merge_tracks([mido.MidiTrack([mido.Message('note_on', time=5)]), mido.MidiTrack()])
    earlier[-1].time = 960
    earlier[0].time = 7
    cs = fd.get('charset')
    if cs is not None:
        # a file with another text encoding than the default: set after construction or handed to the constructor
        if len(fd['tracks']) % 2:
            mid.charset = cs
        else:
            mid = mido.MidiFile(type=mid.type, ticks_per_beat=mid.ticks_per_beat, charset=cs, tracks=mid.tracks)
    # history: the same texts were written under another charset earlier in this process (round 13: an lru_cache on
    # encode_string keyed on the text alone); whether that earlier save works is not this check's business
    try:
        save_bytes(mido.MidiFile(type=mid.type, ticks_per_beat=mid.ticks_per_beat, tracks=mid.tracks,
                                 charset='utf-8' if cs == 'utf-16-le' else 'utf-16-le'))
    except Exception:  # noqa: BLE001
        pass
    if via == 'filename':
        # the same through real files: save(filename) / MidiFile(filename); the path first holds the remains of a failed
        # save of a longer file, which must not show through
        import os
        import tempfile
        with tempfile.TemporaryDirectory(prefix='c07_') as tmp:
            path = os.path.join(tmp, 'x.mid')
            if len(fd['tracks']) % 2:
                old_cwd = os.getcwd()
                os.chdir(tmp)            # relative file name, resolved against the working directory
                path = 'x.mid'
            else:
                old_cwd = None
                if fd['tpb'] % 2 == 0:
                    import pathlib
                    path = pathlib.Path(path)     # a path object instead of a string: whatever open() takes
            junk = mido.MidiFile(type=1, tracks=[mido.MidiTrack([mido.Message('note_on', time=i) for i in range(300)] +
                                                                [mido.Message('clock')])])
            try:
                junk.save(path)
            except ValueError:
                pass
            try:
                mid.save(path)
                with open(path, 'rb') as f:
                    b = f.read()
                back = mido.MidiFile(path) if cs is None else mido.MidiFile(path, charset=cs)
                if os.fspath(back.filename) != os.fspath(path):
                    out.append(fail('filename-attr', f'MidiFile(filename).filename is {back.filename!r}'))
            except Exception as exc:  # noqa: BLE001
                return [fail('save-raises', f'via filename: {exc!r}', exc=exc_sig(exc), via='filename')]
            finally:
                if old_cwd is not None:
                    os.chdir(old_cwd)
        try:
            if save_bytes(mid) != b:
                out.append(fail('filename-bytes', 'save(filename) and save(file=) wrote different bytes'))
        except Exception as exc:  # noqa: BLE001
            out.append(fail('save-raises', f'{exc!r}', exc=exc_sig(exc)))
    else:
        try:
            b = save_bytes(mid)
        except Exception as exc:  # noqa: BLE001
            return [fail('save-raises', f'{exc!r}', exc=exc_sig(exc))]
        try:
            back = load_bytes(b, cs)
            other = load_bytes(b, cs)
            if other.tracks and other.tracks[0]:
                other.tracks[0][0].time = 987654          # a second load must not share messages with the first
                other.tracks[0].append(mido.Message('note_on'))
        except Exception as exc:  # noqa: BLE001
            return [fail('load-raises', f'saved file does not load: {exc!r}', exc=exc_sig(exc))]
        # a saved file holds no data byte above 127, so loading it with clip=True changes nothing (round 13: clipping
        # applied to the framing bytes of a sysex event)
        try:
            clipped = mido.MidiFile(file=io.BytesIO(b), clip=True, **({} if cs is None else {'charset': cs}))
            why = _tracks_equal(clipped.tracks, back.tracks)
            if why:
                out.append(fail('clip-changes-valid-file', f'clip=True against the plain load: {why}'[:700]))
        except Exception as exc:  # noqa: BLE001
            out.append(fail('load-raises', f'saved file does not load with clip=True: {exc!r}', exc=exc_sig(exc)))
    if back.type != fd['type'] or back.ticks_per_beat != fd['tpb']:
        out.append(fail('header', f'type/tpb {back.type}/{back.ticks_per_beat} != {fd["type"]}/{fd["tpb"]}'))
    out += compare_tracks(back.tracks, fd['tracks'], 'reload')
    # saving must not have modified the in-memory file
    for ti, (tr, ot) in enumerate(zip(mid.tracks, fd['tracks'])):
        if len(tr) != len(ot) or any(M.same(m, d) for m, d in zip(tr, ot)):
            out.append(fail('save-mutates-input', f'track {ti} changed by save()'))
    return out


def check_refusal(fd, inj):
    """inj = {'kind': 'realtime'|'negative'|'float'|'intfloat'|'type0', ...}"""
    fd = {'type': fd['type'], 'tpb': fd['tpb'], 'tracks': [list(t) for t in fd['tracks']]}
    kind = inj['kind']
    if kind == 'type0':
        fd['type'] = 0
        n = inj['ntracks']
        base = fd['tracks'][0] if fd['tracks'] else []
        fd['tracks'] = [list(base) for _ in range(n)]
        mid = build_file(fd)
    else:
        if not fd['tracks']:
            fd['tracks'] = [[]]
            if fd['type'] == 0:
                pass
        mid = build_file(fd)
        ti = inj['track'] % len(mid.tracks)
        tr = mid.tracks[ti]
        pos = inj['pos'] % (len(tr) + 1)
        if kind == 'unencodable':
            # a text the file's charset (latin1) cannot represent, lone surrogates included: nothing can be stored for it
            tr.insert(pos, mido.MetaMessage(inj['mtype'], **{inj['attr']: inj['text']}))
        elif kind == 'realtime':
            tr.insert(pos, mido.Message(inj['rt'], time=inj.get('time', 0)))
        else:
            # the bad time goes onto a message that is stored as such: end_of_track messages are merged away by
            # the writer (their deltas are summed), so whether a bad delta on one of them "cannot be stored" is moot
            idx = [i for i, m in enumerate(tr) if m.type != 'end_of_track']
            if not idx:
                tr.insert(0, mido.Message('note_on'))
                idx = [0]
            i = idx[pos % len(idx)]
            t = {'negative': inj.get('value', -1), 'float': inj.get('value', 0.5),
                 'intfloat': float(inj.get('value', 3))}[kind]
            tr[i] = tr[i].copy(time=t)
    try:
        b = save_bytes(mid)
    except ValueError:
        return []
    except Exception as exc:  # noqa: BLE001
        return [fail('refusal-wrong-exception', f'{inj}: {exc!r}', kind=kind, exc=exc_sig(exc))]
    if kind == 'intfloat':
        # allowed alternative: stored with an equal value
        try:
            back = load_bytes(b)
            ok = len(back.tracks) == len(mid.tracks)
        except Exception:  # noqa: BLE001
            ok = False
        if ok:
            return []
    return [fail('unstorable-accepted', f'save() accepted {inj}', kind=kind, rt=inj.get('rt', '-'))]


REFUSAL_MSGS = ('type 0 file must have exactly 1 track', 'realtime messages are not allowed')


def _tracks_equal(a, b):
    if len(a) != len(b):
        return f'{len(a)} tracks != {len(b)}'
    for ti, (x, y) in enumerate(zip(a, b)):
        if len(x) != len(y):
            return f'track {ti}: {len(x)} messages != {len(y)}'
        for mi, (m, n) in enumerate(zip(x, y)):
            if type(m) is not type(n) or not (m == n):
                return f'track {ti} message {mi}: {m!r} != {n!r}'
    return None


def check_fixed_point(b, cs=None):
    try:
        f1 = load_bytes(b, cs)
    except Exception:  # noqa: BLE001
        return [], 'noload'
    try:
        b2 = save_bytes(f1)
    except ValueError as exc:
        rt = any(m.type in R.REALTIME for tr in f1.tracks for m in tr if not m.is_meta)
        if (f1.type == 0 and len(f1.tracks) != 1) or rt:
            return [], 'refused'
        return [fail('loaded-file-does-not-save', f'{exc!r}', exc=exc_sig(exc))], 'x'
    except Exception as exc:  # noqa: BLE001
        return [fail('loaded-file-does-not-save', f'{exc!r}', exc=exc_sig(exc))], 'x'
    try:
        f2 = load_bytes(b2, cs)
    except Exception as exc:  # noqa: BLE001
        return [fail('resaved-file-does-not-load', f'{exc!r}', exc=exc_sig(exc))], 'x'
    out = []
    if (f2.type, f2.ticks_per_beat) != (f1.type, f1.ticks_per_beat):
        out.append(fail('fixedpoint-header', f'{(f1.type, f1.ticks_per_beat)} -> {(f2.type, f2.ticks_per_beat)}'))
    canon = [mido.MidiTrack(mido.midifiles.tracks.fix_end_of_track(tr)) for tr in f1.tracks]
    # canonical form by the reference rule, computed on the objects (drop EOTs, carry deltas, one final EOT)
    ref = []
    for tr in f1.tracks:
        acc = 0
        o = []
        for m in tr:
            if m.type == 'end_of_track':
                acc += m.time
            else:
                o.append(m.copy(time=m.time + acc) if acc else m)
                acc = 0
        o.append(mido.MetaMessage('end_of_track', time=acc))
        ref.append(o)
    del canon
    why = _tracks_equal(f2.tracks, ref)
    if why:
        out.append(fail('fixedpoint-tracks', why))
    try:
        b3 = save_bytes(f2)
        if b3 != b2:
            out.append(fail('save-not-idempotent', f'save(load(b2)) differs from b2 at length {len(b3)}/{len(b2)}'))
    except Exception as exc:  # noqa: BLE001
        out.append(fail('resave-raises', f'{exc!r}', exc=exc_sig(exc)))
    return out, ('same' if bytes(b) == b2 else 'differs')


def run_case(case):
    k = case['kind']
    if k == 'roundtrip':
        return check_roundtrip(case['file'], case.get('via', 'file'))
    if k == 'refusal':
        return check_refusal(case['file'], case['inj'])
    if k == 'bytes':
        return check_fixed_point(bytes(case['bytes']), case.get('charset'))[0]
    raise KeyError(k)


def nontrivial(case):
    k = case['kind']
    if k == 'roundtrip':
        for tr in case['file']['tracks']:
            if len(tr) >= 2:
                kinds = [d['type'] for d in tr]
                run = any(a['type'] == b['type'] and a.get('channel') == b.get('channel') and a['type'] in R.CHANNEL_TYPES
                          for a, b in zip(tr, tr[1:]))
                if run or any(M.is_meta(d) or d['type'] == 'sysex' for d in tr):
                    return bool(kinds)
        return False
    if k == 'refusal':
        return True
    try:
        return check_fixed_point(bytes(case['bytes']))[1] == 'differs'
    except Exception:  # noqa: BLE001
        return False


BIG = st.one_of(S.deltas(), st.sampled_from([2 ** 28, 2 ** 35 + 1, 2 ** 40]))


@st.composite
def refusal_cases(draw):
    fd = draw(S.file_dicts(max_tracks=3, max_events=6, eot='final'))
    kind = draw(st.sampled_from(['realtime', 'realtime', 'negative', 'float', 'intfloat', 'type0']))
    inj = {'kind': kind, 'track': draw(st.integers(0, 5)), 'pos': draw(st.integers(0, 20))}
    if kind == 'realtime':
        inj['rt'] = draw(st.sampled_from(sorted(R.REALTIME)))
        inj['time'] = draw(st.sampled_from([0, 1, 480]))
    elif kind == 'negative':
        inj['value'] = draw(st.sampled_from([-1, -128, -2 ** 40]))
    elif kind == 'float':
        inj['value'] = draw(st.sampled_from([0.5, 1.25, 1e-9, 127.5]))
    elif kind == 'intfloat':
        inj['value'] = draw(st.sampled_from([0, 1, 3, 128]))
    else:
        inj['ntracks'] = draw(st.sampled_from([0, 2, 3]))
    return {'kind': 'refusal', 'file': fd, 'inj': inj}


@st.composite
def mutated_bytes(draw):
    fd = draw(S.file_dicts(max_tracks=3, max_events=8, time=S.deltas(big=False)))
    if draw(st.booleans()):
        # a non-canonical but conformant encoding from the reference encoder (padded VLQs, optional running
        # status, long header, end_of_track wherever the generator put it)
        ev = [[[draw(st.booleans()), draw(st.integers(0, 2)), draw(st.integers(0, 2))] for _ in tr]
              for tr in fd['tracks']]
        b = bytearray(F.encode_file(fd['type'], fd['tpb'], fd['tracks'],
                                    {'header_extra': draw(st.sampled_from([0, 0, 1, 4])), 'ev': ev})[0])
    else:
        try:
            b = bytearray(save_bytes(build_file(fd)))
        except Exception:  # noqa: BLE001
            b = bytearray(b'MThd\x00\x00\x00\x06\x00\x01\x00\x00\x01\xe0')
    n = draw(st.integers(0, 3))
    for _ in range(n):
        op = draw(st.sampled_from(['flip', 'set', 'insert', 'delete', 'truncate', 'splice', 'lenfield', 'status']))
        if not b:
            break
        pos = draw(st.integers(0, len(b) - 1))
        if op == 'flip':
            b[pos] ^= 1 << draw(st.integers(0, 7))
        elif op == 'set':
            b[pos] = draw(st.sampled_from([0x00, 0x7F, 0x80, 0xFF, 0xF0, 0xF7, 0x2F, 0x90, 0xF8, 0xF6]))
        elif op == 'insert':
            b.insert(pos, draw(st.integers(0, 255)))
        elif op == 'delete':
            del b[pos]
        elif op == 'truncate':
            del b[pos:]
        elif op == 'splice':
            q = draw(st.integers(0, len(b) - 1))
            k = draw(st.integers(1, 8))
            b[pos:pos] = b[q:q + k]
        elif op == 'lenfield':
            # edit one of the chunk length fields or the header words
            idx = [i for i in range(len(b) - 8) if b[i:i + 4] in (b'MTrk', b'MThd')]
            if idx:
                i = draw(st.sampled_from(idx)) + 4 + draw(st.integers(0, 9))
                if i < len(b):
                    b[i] = draw(st.sampled_from([0, 1, 2, 5, 6, 7, 0x7F, 0x80, 0xFF]))
        elif op == 'status':
            idx = [i for i in range(14, len(b)) if b[i] >= 0x80]
            if idx:
                b[draw(st.sampled_from(idx))] = draw(st.sampled_from(S.STATUS_REPS))
    return {'kind': 'bytes', 'bytes': list(b)}


def hyp_shard(rec, shard):
    block, k, n = shard
    if block == 'roundtrip':
        files = st.fixed_dictionaries({'kind': st.just('roundtrip'), 'file': S.file_dicts(time=BIG),
                                       'via': st.sampled_from(['file', 'file', 'trackops', 'filename'])})
        rec.hyp(files, n, label='roundtrip', seed_offset=k)
    elif block == 'refusal':
        rec.hyp(refusal_cases(), n, label='refusal', seed_offset=100 + k)
    else:
        def body(case):
            fs, cls = check_fixed_point(bytes(case['bytes']))
            rec.classes['mutant-' + cls] += 1
            return rec.run(case, nontrivial=(cls == 'differs'))
        rec.hyp(mutated_bytes(), n, body=body, label='mutants', seed_offset=200 + k)


def main(ctx):
    n = 1600 if ctx.tier == 'quick' else 20000
    w = 5 if ctx.tier == 'quick' else 16
    ctx.pmap('hyp_shard', [('roundtrip', k, n // w) for k in range(w)] +
             [('refusal', k, n // (2 * w)) for k in range(w)] +
             [('mutants', k, 4 * n // w) for k in range(w)])
    # whatever loads under a charset is a fixed point of load-save-load under that charset: every single-byte change of
    # the text payloads of a small file, for charsets that are not total on bytes
    for cs, text in (('ascii', 'abc'), ('cp1252', '\u20ac5 caf\u00e9'), ('shift_jis', '\u65e5\u672c a'), ('utf-8', 'caf\u00e9 \u20ac'),
                     ('utf-16', 'ab'), ('latin1', 'caf\u00e9')):
        tr = [{'type': 'track_name', 'name': text, 'time': 0}, {'type': 'note_on', 'channel': 0, 'note': 60, 'velocity': 1, 'time': 5},
              {'type': 'lyrics', 'text': text, 'time': 3}]
        good = F.encode_file(1, 480, [tr + [{'type': 'end_of_track', 'time': 0}]], charset=cs)[0]
        payload = text.encode(cs)
        start = bytes(good).find(payload)
        for off in range(len(payload)):
            for val in (0x80, 0x81, 0x8D, 0x90, 0xA0, 0xFF, 0xFE, 0x00, 0x1B):
                mutated = bytearray(good)
                mutated[start + off] = val
                ctx.check({'kind': 'bytes', 'bytes': list(mutated), 'charset': cs}, classes=('charset-mutant',), sample=False)
    # files in another text encoding than the default (text that is spelled differently in latin1)
    for cs, text in (('utf-8', 'caf\u00e9 \u20ac \u65e5\u672c'), ('cp437', 'caf\u00e9 \u0398'), ('mac_roman', '\u00e9t\u00e9'),
                     ('cp1252', '\u20ac5'), ('utf-16', 'ab\u00e9'), ('shift_jis', '\u65e5\u672c'), ('latin1', '\u00e9')):
        for ntr in (1, 2):
            tr = [{'type': 'track_name', 'name': text, 'time': 0}, {'type': 'lyrics', 'text': text + text, 'time': 3},
                  {'type': 'note_on', 'channel': 0, 'note': 60, 'velocity': 1, 'time': 5}, {'type': 'marker', 'text': '', 'time': 0}]
            for via in ('file', 'filename'):
                ctx.check({'kind': 'roundtrip', 'via': via, 'file': {'type': 1, 'tpb': 480, 'tracks': [tr] * ntr, 'charset': cs}},
                          classes=('charset',), sample=False)
    # volume: many events, many tracks (track count needs both header bytes), long payloads
    big = [{'type': 'note_on', 'channel': i % 16, 'note': i % 128, 'velocity': 1 + i % 127, 'time': i % 3} for i in range(4000)]
    big += [{'type': 'lyrics', 'text': 'x' * 70000, 'time': 1}, {'type': 'sysex', 'data': [i % 128 for i in range(20000)], 'time': 2},
            {'type': 'unknown_meta', 'type_byte': 0x70, 'data': [i % 256 for i in range(17000)], 'time': 3}]
    ctx.check({'kind': 'roundtrip', 'file': {'type': 1, 'tpb': 480, 'tracks': [big, big[:10]]}}, sample=False)
    ctx.check({'kind': 'roundtrip', 'file': {'type': 1, 'tpb': 96, 'tracks': [[pm] for pm in big[:300]]}}, sample=False)
    ctx.check({'kind': 'roundtrip', 'file': {'type': 2, 'tpb': 1, 'tracks': [[] for _ in range(260)]}}, sample=False)
    two_dumps = [{'type': 'sysex', 'data': [(i * 5) % 128 for i in range(600000)], 'time': 1},
                 {'type': 'note_on', 'channel': 0, 'note': 1, 'velocity': 2, 'time': 0},
                 {'type': 'sysex', 'data': [(i * 7) % 128 for i in range(600000)], 'time': 2}]
    ctx.check({'kind': 'roundtrip', 'file': {'type': 1, 'tpb': 480, 'tracks': [two_dumps]}}, sample=False)
    for text in ('caf\udce9', '\udc80', 'snow\u2603man', '\ud800', 'x\U0001F3B5'):
        for tname, attr in (('track_name', 'name'), ('lyrics', 'text')):
            ctx.check({'kind': 'refusal', 'file': {'type': 1, 'tpb': 96, 'tracks': [[{'type': 'note_on', 'channel': 0, 'note': 5,
                                                                                  'velocity': 6, 'time': 1}]]},
                       'inj': {'kind': 'unencodable', 'track': 0, 'pos': 1, 'mtype': tname, 'attr': attr, 'text': text}},
                      sample=False)
    long_track = [{'type': 'control_change', 'channel': i % 16, 'control': i % 128, 'value': (i * 3) % 128, 'time': (i * 7) % 300}
                  if i % 97 else {'type': 'marker', 'text': f'bar {i}', 'time': 0} for i in range(30000)]
    ctx.check({'kind': 'roundtrip', 'file': {'type': 0, 'tpb': 960, 'tracks': [long_track]}, 'via': 'filename'}, sample=False)
    if ctx.tier == 'thorough':
        from lib.harness import run_fuzz
        seeds = []
        ev = [{'type': 'note_on', 'channel': 0, 'note': 60, 'velocity': 64, 'time': 0},
              {'type': 'note_on', 'channel': 0, 'note': 62, 'velocity': 64, 'time': 128},
              {'type': 'set_tempo', 'tempo': 500000, 'time': 0}, {'type': 'sysex', 'data': [1, 2, 3], 'time': 5},
              {'type': 'unknown_meta', 'type_byte': 0x60, 'data': [9], 'time': 1},
              {'type': 'song_select', 'song': 3, 'time': 0}, {'type': 'end_of_track', 'time': 0}]
        for fmt, tracks in ((0, [ev]), (1, [ev[:3] + ev[-1:], ev[3:]]), (2, [ev[:2] + ev[-1:]])):
            seeds.append(F.encode_file(fmt, 480, tracks)[0])
            seeds.append(F.encode_file(fmt, 96, tracks, {'header_extra': 2, 'ev': [[[True, 1, 1] for _ in t] for t in tracks]})[0])
        run_fuzz(ctx, 'C07', 500000, seeds, max_len=200)
