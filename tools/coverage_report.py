#!/venv/bin/python
"""Which executable lines of mido/ does no quick check ever execute?  (a blind-spot finder, not a verdict)
    tools/coverage_report.py [--run] [dir]      --run: run all quick checks with VERIF_COVER=dir first"""
import glob
import json
import os
import subprocess
import sys

HERE = os.path.dirname(os.path.dirname(os.path.abspath(__file__)))
REPO = os.environ.get('MIDO_REPO', '/repo')


def executable_lines(path):
    src = open(path).read()
    code = compile(src, path, 'exec')
    lines = set()
    todo = [code]
    while todo:
        c = todo.pop()
        for _, _, ln in c.co_lines():
            if ln:
                lines.add(ln)
        todo += [k for k in c.co_consts if hasattr(k, 'co_lines')]
    return lines, src.splitlines()


def main():
    args = [a for a in sys.argv[1:] if a != '--run']
    d = args[0] if args else os.path.join(HERE, '.cover')
    if '--run' in sys.argv:
        for i in range(1, 21):
            pid = f'C{i:02d}'
            subprocess.run([os.path.join(HERE, 'check'), pid], env=dict(os.environ, VERIF_COVER=d, VERIF_NO_CHILD='1'),
                           stdout=subprocess.DEVNULL)
            print(pid, 'done', flush=True)
    per = {}
    for f in glob.glob(os.path.join(d, 'C*.json')):
        pid = os.path.basename(f)[:3]
        for fn, ln in json.load(open(f)):
            per.setdefault(fn, {}).setdefault(ln, set()).add(pid)
    total = hit = 0
    for path in sorted(glob.glob(os.path.join(REPO, 'mido', '**', '*.py'), recursive=True)):
        rel = os.path.relpath(path, os.path.join(REPO, 'mido'))
        ex, src = executable_lines(path)
        got = per.get(rel, {})
        miss = sorted(ln for ln in ex if ln not in got)
        total += len(ex)
        hit += len(ex) - len(miss)
        print(f'== {rel}: {len(ex) - len(miss)}/{len(ex)} lines executed by some check')
        for ln in miss:
            print(f'   {ln:4d}  {src[ln - 1].rstrip()[:110]}')
    print(f'TOTAL {hit}/{total}')


if __name__ == '__main__':
    main()
