"""Deterministic thread scheduler for interleaving exploration at statement granularity.

Program threads are real threading.Thread objects, but only one is ever runnable: a trace function installed in
every program thread hands control back to the scheduler at each `line` event of frames whose code lives in one of
the traced files.  Locks created through the `threading` shim are cooperative re-entrant locks, and the sleep shim is
a forced yield.  A schedule decides, at each yield point, whether the running thread continues (0) or which other
enabled thread takes over (k > 0 = the k-th other enabled thread in cyclic order).
"""
import sys
import threading as _threading


class SchedAbort(BaseException):
    pass


class PThread:
    def __init__(self, idx, fn):
        self.idx = idx
        self.fn = fn
        self.sem = _threading.Semaphore(0)
        self.finished = False
        self.error = None
        self.waiting_for = None
        self.in_op = False          # set by program bodies around port calls (non-trivial rule)
        self.thread = None


class CoopRLock:
    """Re-entrant lock whose waiting is visible to the scheduler."""

    def __init__(self, sched):
        self.sched = sched
        self.owner = None
        self.count = 0

    def acquire(self, blocking=True, timeout=-1):
        s = self.sched
        me = s.me()
        if me is None:
            # not a program thread (set-up / tear-down code, single-threaded by construction)
            self.owner = self.owner or 'main'
            self.count += 1
            return True
        while self.owner is not None and self.owner is not me:
            if not blocking:
                return False
            me.waiting_for = self
            s.lock_waits += 1
            s.block(me)
        me.waiting_for = None
        self.owner = me
        self.count += 1
        return True

    def release(self):
        self.count -= 1
        if self.count <= 0:
            self.count = 0
            self.owner = None

    __enter__ = acquire

    def __exit__(self, *exc):
        self.release()
        return False


class ThreadingShim:
    """Stands in for the `threading` module inside mido.ports."""

    def __init__(self, sched):
        self._sched = sched

    def RLock(self):
        return CoopRLock(self._sched)

    Lock = RLock

    def __getattr__(self, name):
        return getattr(_threading, name)


class Scheduler:
    def __init__(self, traced_files, schedule=None, max_steps=20000, first=0):
        self.traced = tuple(traced_files)
        self.dense = None
        self.sparse = {}
        if isinstance(schedule, dict):
            self.sparse = {int(k): v for k, v in schedule.items()}
        elif schedule:
            if schedule and isinstance(schedule[0], (list, tuple)):
                self.sparse = {int(i): k for i, k in schedule}
            else:
                self.dense = list(schedule)
        self.max_steps = max_steps
        self.first = first
        self.threads = []
        self.by_ident = {}
        self.current = None
        self.steps = 0
        self.switches = 0
        self.preemptions = 0
        self.lock_waits = 0
        self.interesting_switch = 0   # switched-out thread was inside a port operation
        self.abort = False
        self.abort_reason = None
        self.trace_ids = []           # executed thread sequence (compressed)
        self.done = _threading.Event()

    # ---- public -------------------------------------------------------------------------------------------------
    def add(self, fn):
        t = PThread(len(self.threads), fn)
        self.threads.append(t)
        return t

    def shim(self):
        return ThreadingShim(self)

    def me(self):
        return self.by_ident.get(_threading.get_ident())

    def run(self, join_timeout=10.0):
        for t in self.threads:
            t.thread = _threading.Thread(target=self._wrapper, args=(t,), daemon=True)
            t.thread.start()
        if not self.threads:
            return
        start = self.threads[self.first % len(self.threads)]
        self.current = start
        self._note(start)
        start.sem.release()
        self.done.wait(join_timeout * 3)
        for t in self.threads:
            t.thread.join(join_timeout)
        alive = [t.idx for t in self.threads if t.thread.is_alive()]
        if alive:
            self.abort = True
            self.abort_reason = self.abort_reason or f'threads {alive} did not terminate'
            for t in self.threads:
                t.sem.release()

    # ---- inside program threads -----------------------------------------------------------------------------------
    def _wrapper(self, t):
        self.by_ident[_threading.get_ident()] = t
        t.sem.acquire()
        try:
            if self.abort:
                raise SchedAbort()
            sys.settrace(self._global_trace)
            try:
                t.fn()
            finally:
                sys.settrace(None)
        except SchedAbort:
            pass
        except BaseException as exc:  # noqa: BLE001
            t.error = exc
        finally:
            t.finished = True
            t.waiting_for = None
            self._finish(t)

    def _finish(self, t):
        nxt = self._next_enabled(t)
        if nxt is None:
            if any(not x.finished for x in self.threads) and not self.abort:
                self.abort = True
                self.abort_reason = 'deadlock: unfinished threads are all waiting for a lock'
                for x in self.threads:
                    x.sem.release()
            self.done.set()
            if all(x.finished for x in self.threads):
                return
            return
        self.current = nxt
        self._note(nxt)
        nxt.sem.release()

    def _global_trace(self, frame, event, arg):
        if event == 'call' and frame.f_code.co_filename.endswith(self.traced):
            return self._line_trace
        return None

    def _line_trace(self, frame, event, arg):
        if event == 'line':
            self.step()
        return self._line_trace

    def _enabled(self, t):
        return (not t.finished) and (t.waiting_for is None or t.waiting_for.owner is None or t.waiting_for.owner is t)

    def _others(self, me):
        n = len(self.threads)
        out = []
        for d in range(1, n):
            t = self.threads[(me.idx + d) % n]
            if self._enabled(t):
                out.append(t)
        return out

    def _next_enabled(self, me):
        o = self._others(me)
        return o[0] if o else None

    def _note(self, t):
        if not self.trace_ids or self.trace_ids[-1][1] != t.idx:
            self.trace_ids.append((self.steps, t.idx))

    def _bump(self):
        self.steps += 1
        if self.steps > self.max_steps and not self.abort:
            self.abort = True
            self.abort_reason = f'step bound {self.max_steps} exceeded (livelock or starvation)'
            for x in self.threads:
                x.sem.release()
            self.done.set()
        if self.abort:
            raise SchedAbort()

    def step(self):
        me = self.current
        idx = self.steps
        self._bump()
        if self.dense is not None:
            choice = self.dense[idx] if idx < len(self.dense) else 0
        else:
            choice = self.sparse.get(idx, 0)
        if choice:
            others = self._others(me)
            if others:
                self.preemptions += 1
                self._switch(me, others[(choice - 1) % len(others)])

    def pause(self):
        """Voluntary yield (sleep / idle polling loop): another enabled thread runs if there is one."""
        me = self.me()
        if me is None:
            if self.abort:
                # a program thread of a run that was given up (its bookkeeping is gone): it must not spin on
                raise SchedAbort()
            return
        self._bump()
        nxt = self._next_enabled(me)
        if nxt is not None:
            self._switch(me, nxt)

    def block(self, me):
        """The running thread cannot proceed (lock held by someone else)."""
        self._bump()
        nxt = self._next_enabled(me)
        if nxt is None:
            self.abort = True
            self.abort_reason = 'deadlock: every unfinished thread waits for a lock'
            for x in self.threads:
                x.sem.release()
            self.done.set()
            raise SchedAbort()
        self._switch(me, nxt)

    def _switch(self, me, target):
        self.switches += 1
        if me.in_op and not me.finished and not target.finished:
            self.interesting_switch += 1
        self.current = target
        self._note(target)
        target.sem.release()
        me.sem.acquire()
        if self.abort:
            raise SchedAbort()


def run_threads(traced, fns, schedule=None, first=0, max_steps=20000):
    """Run plain callables as scheduler-controlled threads (no locks involved): returns (results, errors, steps, reason).
    Used for code that is documented/assumed to be a pure function: results under any interleaving must equal the
    sequential results."""
    import gc
    sched = Scheduler(traced, schedule=schedule, first=first, max_steps=max_steps)
    results = [None] * len(fns)

    def wrap(i, fn):
        def body():
            results[i] = fn()
        return body
    for i, fn in enumerate(fns):
        sched.add(wrap(i, fn))
    was = gc.isenabled()
    gc.disable()
    try:
        sched.run()
    finally:
        if was:
            gc.enable()
    errors = [t.error for t in sched.threads]
    return results, errors, sched.steps, sched.abort_reason


def fresh_mido():
    """A freshly imported, private copy of the mido package (module-level lazily initialised state is back to
    "never used"); the process-wide modules stay as they are."""
    import sys
    saved = {k: v for k, v in sys.modules.items() if k == 'mido' or k.startswith('mido.')}
    for k in saved:
        del sys.modules[k]
    try:
        import mido as fresh
        return fresh
    finally:
        for k in [k for k in sys.modules if k == 'mido' or k.startswith('mido.')]:
            del sys.modules[k]
        sys.modules.update(saved)
