"""C02 - from_bytes/from_hex accept exactly the well-formed single-message encodings."""
import itertools

from hypothesis import strategies as st

import mido
from lib import refmidi as R
from lib import strategies as S
from lib.harness import exc_sig, fail

PID = 'C02'
LEVEL = 'exploration'
RULE = ('thorough: every byte string of length 0..3 over 0..255 (16,843,009 strings) enumerated; quick: all strings of '
        'length 0..2, length 3 over a 48-letter boundary alphabet, lengths 4..6 over a 12-letter alphabet. Both tiers: '
        'Hypothesis mutations of valid encodings (drop/duplicate/insert/replace bytes, terminator changes, bytes after F7, '
        'data > 127 inside long sysex), out-of-byte-range and non-integer items at every position, all containers, and '
        'from_hex over randomly spaced / malformed hex text. Oracle: independent single-message recogniser: accepted => '
        'bytes() reproduces the input and equals the reference decoding; rejected => ValueError (TypeError or ValueError '
        'for non-integer items); any other outcome is a violation. Non-trivial = first item is a defined status byte; '
        'distinct by item tuple (by construction for enumerations).'
        ' Later additions: typed arrays and cast memoryviews as sequences; from_hex(text, sep=S) for 23 separators'
        ' including regex-special characters, judged like the byte list.')
ASSUMPTIONS = ['generators/iterators are not passed: the statement quantifies over sequences',
               'bool items are not generated (whether they are "integers" is not stated)']

import array


def _arr(code):
    def make(items):
        return array.array(code, items)
    return make


def _mv16(items):
    return memoryview(array.array('H', items)).cast('B').cast('H')


CONT = {'list': list, 'tuple': tuple, 'bytes': bytes, 'bytearray': bytearray, 'array_B': _arr('B'), 'array_b': _arr('b'),
        'array_h': _arr('h'), 'array_H': _arr('H'), 'array_i': _arr('i'), 'mv_H': _mv16}
RANGE = {'bytes': (0, 255), 'bytearray': (0, 255), 'array_B': (0, 255), 'array_b': (-128, 127), 'array_h': (-32768, 32767),
         'array_H': (0, 65535), 'array_i': (-2 ** 31, 2 ** 31 - 1), 'mv_H': (0, 65535)}


def _unjson(x):
    if isinstance(x, dict) and '__bytes__' in x:
        return bytes(x['__bytes__'])
    if isinstance(x, dict) and '__float__' in x:
        return float(x['__float__'])
    return x


def check_seq(items, cont='list', via='from_bytes', text=None):
    items = [_unjson(x) for x in items]
    all_int = all(R.is_int(x) for x in items)
    in_byte = all_int and all(0 <= x <= 255 for x in items)
    well = all_int and R.ref_is_single_message(items)
    try:
        if via == 'from_hex':
            r = mido.Message.from_hex(text)
        else:
            lo, hi = RANGE.get(cont, (None, None))
            fits = cont in ('list', 'tuple') or (all_int and all(lo <= x <= hi for x in items))
            arg = CONT[cont](items) if fits else list(items)
            r = mido.Message.from_bytes(arg)
    except ValueError as exc:
        if well:
            return [fail('rejects-wellformed', f'{items[:10]} ({via}/{cont}): {exc!r}', status=_st(items))]
        return []
    except TypeError as exc:
        if all_int:
            return [fail('wrong-exception', f'{items[:10]} ({via}/{cont}): {exc!r}', exc=exc_sig(exc))]
        return []
    except BytesWarning as exc:
        # `python -bb` makes ANY comparison of a bytes object with an int raise: when an ITEM of the sequence is itself
        # a bytes object, that is the interpreter refusing the item (the TypeError case), not mido's choice of exception
        if any(isinstance(x, (bytes, bytearray)) for x in items):
            return []
        return [fail('wrong-exception', f'{items[:10]} ({via}/{cont}): {exc!r}', exc=exc_sig(exc))]
    except Exception as exc:  # noqa: BLE001
        return [fail('wrong-exception', f'{items[:10]} ({via}/{cont}): {exc!r}', exc=exc_sig(exc))]
    if not well:
        return [fail('accepts-malformed', f'{items[:10]} ({via}/{cont}) -> {r!r}', status=_st(items),
                     n=min(len(items), 5))]
    out = []
    try:
        b = r.bytes()
    except Exception as exc:  # noqa: BLE001
        return [fail('bytes-raises', f'{items[:10]}: {exc!r}', exc=exc_sig(exc))]
    if b != list(items):
        out.append(fail('bytes-differ', f'{items[:10]} -> {r!r} -> {b[:10]}', status=_st(items)))
    why = R.same_message(r, _tupled(R.ref_decode(list(items))))
    if why:
        out.append(fail('decode-differs', f'{items[:10]}: {why}', status=_st(items)))
    return out


def _tupled(d):
    if 'data' in d:
        d['data'] = tuple(d['data'])
    return d


def _st(items):
    if items and R.is_int(items[0]) and 0 <= items[0] <= 255:
        return '%02X' % (items[0] & 0xF0 if items[0] < 0xF0 else items[0])
    return 'none'


def run_case(case):
    return check_seq(case['seq'], case.get('cont', 'list'), case.get('via', 'from_bytes'), case.get('text'))


def nontrivial(case):
    if case.get('kind') == 'threads':
        return bool(case.get('sched'))
    s = case['seq']
    return bool(s) and R.is_int(s[0]) and R.expected_data_len(s[0]) is not None


# ---- enumerations ---------------------------------------------------------------------------------------------

B48 = sorted(set([h | l for h in range(0x80, 0xF0, 0x10) for l in (0, 0xF)] +
                 list(range(0xF0, 0x100)) + [0x00, 0x01, 0x3F, 0x40, 0x7E, 0x7F] +
                 [0x10, 0x20, 0x2F, 0x51, 0x58, 0x59, 0x60, 0x70, 0x08, 0x0F, 0x11, 0x7D]))[:48]
B12 = [0x00, 0x7F, 0x80, 0x90, 0xC5, 0xE3, 0xF0, 0xF1, 0xF2, 0xF6, 0xF7, 0xF8]


_N = [0]


def _fast(rec, seq, conts):
    """Inlined oracle for plain byte lists; falls back to check_seq on disagreement."""
    _N[0] += 1
    if not rec.keep(_N[0], 13):
        return
    well = R.ref_is_single_message(seq)
    for c in conts:
        try:
            r = mido.Message.from_bytes(CONT[c](seq))
            ok = well and r.bytes() == seq
        except ValueError:
            ok = not well
        except Exception:  # noqa: BLE001
            ok = False
        if not ok or (well and c == conts[0] and R.same_message(r, _tupled(R.ref_decode(seq)))):
            rec.check({'seq': list(seq), 'cont': c}, nontrivial=False, sample=False)
            rec.evals -= 1
    rec.evals += 1
    if R.expected_data_len(seq[0]) is not None if seq else False:
        rec.nt_enum += 1
        rec.classes['accepted' if well else 'rejected-defined-status'] += 1
    else:
        rec.classes['rejected-other'] += 1


def enum_full3(rec, a):
    conts = ('list', 'bytes')
    if a == -1:
        _fast(rec, [], conts)
        return
    _fast(rec, [a], conts)
    for b in range(256):
        _fast(rec, [a, b], conts)
        for c in range(256):
            _fast(rec, [a, b, c], ('list',))
    rec.samples.append({'seq': [a, 0x40, 0x7F], 'cont': 'list'})


def enum_quick(rec, shard):
    kind, a = shard
    conts = ('list', 'bytes')
    if kind == 'len012':
        if a == -1:
            _fast(rec, [], conts)
            return
        _fast(rec, [a], conts)
        for b in range(256):
            _fast(rec, [a, b], conts)
    elif kind == 'len3':
        for b in B48:
            for c in B48:
                _fast(rec, [a, b, c], conts)
    else:  # len 4..6 over B12, first letter a
        for n in ((3, 4, 5) if rec.tier == 'thorough' else (3, 4)):
            for tail in itertools.product(B12, repeat=n):
                _fast(rec, [a, *tail], ('list',))
    if len(rec.samples) < 1 and a >= 0x80:
        rec.samples.append({'seq': [a, 0x40, 0x7F], 'cont': 'list'})


# ---- drawn cases ----------------------------------------------------------------------------------------------

NONINT = [1.0, 1.5, 144.0, '1', 'a', None, [1], {'__bytes__': [1]}, float(2 ** 70)]
OUTRANGE = [-1, 256, 128 + 256, 2 ** 70, -2 ** 70, -128]


@st.composite
def mutated(draw):
    d = draw(S.msg_dict(time=st.just(0), max_sysex=300))
    seq = R.ref_encode(d)
    n = draw(st.integers(0, 3))
    for _ in range(n):
        op = draw(st.sampled_from(['drop', 'dup', 'insert', 'replace', 'append', 'noterm', 'hi', 'bad', 'oor']))
        pos = draw(st.integers(0, max(len(seq) - 1, 0)))
        if op == 'drop' and seq:
            del seq[pos]
        elif op == 'dup' and seq:
            seq.insert(pos, seq[pos])
        elif op == 'insert':
            seq.insert(pos, draw(st.one_of(st.integers(0, 255), st.sampled_from(S.STATUS_REPS))))
        elif op == 'replace' and seq:
            seq[pos] = draw(st.one_of(st.integers(0, 255), st.sampled_from(S.STATUS_REPS)))
        elif op == 'append':
            seq.append(draw(st.sampled_from([0, 0x7F, 0xF7, 0xF0, 0x90, 0xF8])))
        elif op == 'noterm' and seq:
            seq[-1] = draw(st.sampled_from([0x00, 0x7F, 0xF0, 0xF6, 0xF8, 0xFF]))
        elif op == 'hi' and len(seq) > 1:
            seq[draw(st.integers(1, len(seq) - 1))] = draw(st.integers(128, 255))
        elif op == 'bad':
            v = draw(st.sampled_from(NONINT))
            if draw(st.booleans()) and seq:
                seq[pos] = v
            else:
                seq.insert(pos, v)
        elif op == 'oor':
            v = draw(st.sampled_from(OUTRANGE))
            if draw(st.booleans()) and seq:
                seq[pos] = v
            else:
                seq.insert(pos, v)
    cont = draw(st.sampled_from(['list', 'tuple', 'bytes', 'bytearray', 'array_B', 'array_b', 'array_h', 'array_H', 'array_i',
                                 'mv_H']))
    return {'seq': seq, 'cont': cont}


WS = [' ', '\t', '\n', '\r', '\x0b', '\x0c']


@st.composite
def hex_cases(draw):
    base = draw(mutated())
    seq = [x for x in base['seq'] if R.is_int(x) and 0 <= x <= 255]
    parts = []
    if draw(st.booleans()):
        parts.append(''.join(draw(st.lists(st.sampled_from(WS), max_size=3))))
    for b in seq:
        h = '%02X' % b
        if draw(st.booleans()):
            h = h.lower()
        parts.append(h)
        parts.append(''.join(draw(st.lists(st.sampled_from(WS), min_size=0, max_size=2))))
    text = ''.join(parts)
    bad = draw(st.sampled_from([None, None, None, 'odd', 'nonhex', 'x', 'split']))
    if bad == 'odd':
        text += 'F'
        seq = None
    elif bad == 'nonhex':
        text += ' G0'
        seq = None
    elif bad == 'x':
        text = '0x90 0x01 0x02'
        seq = None
    elif bad == 'split' and len(text.strip()) >= 2:
        # whitespace inside a pair: "9 0" is not two-digit hex
        text = text.strip()
        text = text[0] + ' ' + text[1:]
        seq = None
    return {'seq': seq, 'via': 'from_hex', 'text': text}


SEPS = ['+', '.', '|', '*', '?', '(', ')', '[', ']', '\\', '^', '$', '{', '}', '-', ':', ', ', '::', '+-', '.*', '[:]', 'x', 'zz']


def run_hex_sep(case):
    """from_hex(text, sep=S): the separator is a literal string; the verdict is that of the byte list."""
    seq, sep = case['seq'], case['sep']
    text = sep.join(f'{b:02X}' for b in seq)
    well = R.ref_is_single_message(seq)
    try:
        r = mido.Message.from_hex(text, sep=sep)
    except ValueError as exc:
        if well:
            return [fail('rejects-wellformed', f'from_hex({text!r}, sep={sep!r}): {exc!r}', status=_st(seq))]
        return []
    except Exception as exc:  # noqa: BLE001
        return [fail('wrong-exception', f'from_hex({text!r}, sep={sep!r}): {exc!r}', exc=exc_sig(exc))]
    if not well:
        return [fail('accepts-malformed', f'from_hex({text!r}, sep={sep!r}) -> {r!r}', status=_st(seq), n=min(len(seq), 5))]
    if r.bytes() != list(seq):
        return [fail('bytes-differ', f'from_hex({text!r}, sep={sep!r}) -> {r!r} with bytes {r.bytes()}', status=_st(seq))]
    return []


def run_hex(case):
    """from_hex: malformed text -> ValueError; otherwise same verdict as the byte list."""
    if case.get('sep') is not None:
        return run_hex_sep(case)
    if case['seq'] is None:
        try:
            r = mido.Message.from_hex(case['text'])
        except ValueError:
            return []
        except Exception as exc:  # noqa: BLE001
            return [fail('wrong-exception', f'from_hex({case["text"]!r}): {exc!r}', exc=exc_sig(exc))]
        return [fail('accepts-malformed-hex', f'from_hex({case["text"]!r}) -> {r!r}')]
    return check_seq(case['seq'], 'list', 'from_hex', case['text'])


_orig_run_case = run_case


def run_case(case):  # noqa: F811
    if case.get('kind') == 'threads':
        # from_bytes is a pure function: two threads decoding (also as the very first thing after import) get what a
        # single thread gets - the machinery is C01's
        from checks import c01_codec as C01
        return C01.check_threads(case)
    if case.get('via') == 'from_hex':
        return run_hex(case)
    return _orig_run_case(case)


def first_use_shard(rec, shard):
    from checks import c01_codec as C01
    C01.thread_shard(rec, shard)


def main(ctx):
    if ctx.tier == 'thorough':
        ctx.pmap('enum_full3', [-1] + list(range(256)))
        ctx.exhaustive = True
        ctx.extra['exhaustive_scope'] = 'all byte strings of length 0..3 over 0..255'
        ctx.pmap('enum_quick', [('len456', a) for a in B12])
    else:
        ctx.pmap('enum_quick', [('len012', a) for a in [-1] + list(range(256))] +
                 [('len3', a) for a in B48] + [('len456', a) for a in B12])
        ctx.exhaustive = False
    ctx.pmap('first_use_shard', [(t,) for t in ('pitchwheel', 'songpos', 'quarter_frame', 'sysex', 'note_on', 'program_change')])
    # from_hex with an explicit separator, regex-special characters included: valid and invalid encodings
    for sep in SEPS:
        for seq in ([0x90, 0x3C, 0x40], [0xF8], [0xF0, 1, 2, 0xF7], [0xF0, 0xF7], [0xE0, 0, 0x40], [0x90, 0x3C],
                    [0x90, 0x3C, 0x40, 0], [0x3C, 0x40], [0xF0, 1, 2], [0x90, 0x80, 0], []):
            ctx.check({'seq': seq, 'via': 'from_hex', 'sep': sep, 'text': None}, classes=('hex-sep',), sample=False)
    n = 3000 if ctx.tier == 'quick' else 60000
    ctx.hyp(mutated(), n, label='mutated')
    ctx.hyp(hex_cases(), n // 3, label='hex', seed_offset=1)
    if ctx.tier == 'thorough':
        from lib.harness import run_fuzz
        seeds = [bytes(R.ref_encode(R.default_msg(t))) for t in R.ALL_TYPES if t != 'sysex'] + [b'\xf0\x01\x02\xf7',
                                                                                           b'\xff90 01 02']
        run_fuzz(ctx, 'C02', 1000000, seeds, max_len=48)
    # every non-integer / out-of-range item at every position of one valid encoding of each type
    for t in R.ALL_TYPES:
        d = R.default_msg(t)
        if t == 'sysex':
            d['data'] = (1, 2, 3)
        enc = R.ref_encode(d)
        for pos in range(len(enc) + 1):
            for v in NONINT + OUTRANGE:
                for mode in ('replace', 'insert'):
                    seq = list(enc)
                    if mode == 'replace':
                        if pos >= len(seq):
                            continue
                        seq[pos] = v
                    else:
                        seq.insert(pos, v)
                    for cont in ('list', 'tuple'):
                        ctx.check({'seq': seq, 'cont': cont}, classes=('illtyped-grid',), sample=False)
    # integer sequences that are not lists of small ints: typed arrays and cast memoryviews (items are what counts, not
    # the underlying memory)
    for t in R.ALL_TYPES:
        d = R.default_msg(t)
        if t == 'sysex':
            d['data'] = (1, 2, 3)
        enc = R.ref_encode(d)
        for cont in ('array_B', 'array_h', 'array_H', 'array_i', 'mv_H'):
            ctx.check({'seq': enc, 'cont': cont}, classes=('typed-sequences',), sample=False)
            ctx.check({'seq': enc[:-1], 'cont': cont}, classes=('typed-sequences',), sample=False)
    for seq, cont in (([-112, 60, 64], 'array_b'), ([-8], 'array_b'), ([192], 'array_H'), ([192], 'mv_H'), ([63472], 'mv_H'),
                      ([0x3C90, 0x40], 'array_H'), ([0x90, 0x3C, 0x140], 'array_h'), ([-1], 'array_i'), ([0xF8F8], 'array_H')):
        ctx.check({'seq': seq, 'cont': cont}, classes=('typed-sequences',), sample=False)
