"""C06 - the parser resynchronises: a complete message is always recognised."""
import itertools

from hypothesis import strategies as st

import mido
from lib import refmidi as R
from lib import strategies as S
from lib.harness import exc_sig, fail

PID = 'C06'
LEVEL = 'exploration'
RULE = ('Prefix clause: every prefix over the 14-letter byte-class alphabet up to length 3 (quick) / 4 (thorough) x one '
        'message of each of the 18 types at two value settings, plus every proper prefix of every encoding followed by '
        'every type (the "same status restarts" pairs included), plus Hypothesis prefixes (junk, cut-short encodings) x '
        'drawn messages. Concatenation clause: drawn lists of 0..12 messages encoded by the independent reference encoder. '
        'Real-time-in-sysex clause: payload lengths 0..8 x every position strictly inside the encoding x each of the six '
        'real-time bytes, exhaustively for one and two insertions, Hypothesis for many insertions in long payloads. '
        'Oracle: parse_all(P+enc(M)) == parse_all(P)+[M]; parse_all(concat) == list; sysex with real-time bytes r1..rk '
        'inserted == [R1..Rk, sysex]. Non-trivial = the prefix leaves a message open (independent "ends open" test) / an '
        'insertion between two payload bytes; distinct by input.'
        ' Later additions: segment streams with yield known by construction ([cut, whole, tail, whole] for every'
        ' type and cut position, and drawn segment lists) through every way of feeding (list, bytes, generator,'
        ' iterator, byte-wise early/late, int subclasses, IntEnum members); 140 000-message streams; results'
        ' scribbled on by the caller must not change later parses.')
ASSUMPTIONS = ['the reference encoder (lib/refmidi.py) supplies the encodings, so the oracle does not rely on mido encoders']

RT_BYTES = sorted(R.REALTIME_BY_STATUS)


def mk(d):
    kw = {k: v for k, v in d.items() if k != 'type'}
    return mido.Message(d['type'], **kw)


def ends_open(prefix):
    """Independent scan: does the prefix end inside an unfinished multi-byte message?"""
    need = 0
    for b in prefix:
        if b >= 0xF8:
            continue            # real-time bytes never open or close a message
        if b >= 0x80:
            n = R.expected_data_len(b)
            if b == 0xF7 or n is None or n == 0:
                if n is None and b != 0xF7:
                    continue     # undefined status: unspecified, treat as neutral
                need = 0
            else:
                need = n        # -1 for sysex
        else:
            if need > 0:
                need -= 1
    return need != 0


def parse_how(data, how):
    if how == 'bytes':
        return mido.parse_all(bytes(data))
    if how == 'generator':
        return mido.parse_all(b for b in data)
    if how == 'iter':
        return mido.parse_all(iter(list(data)))
    if how == 'bytewise':
        p = mido.Parser()
        out = []
        for b in data:
            p.feed_byte(b)
            out.extend(p)
        return out
    if how == 'intsub':
        from lib.vals import _IntSub
        return mido.parse_all([_IntSub(b) for b in data])
    if how == 'enum':
        from checks.c04_parser_sound import _BYTE_ENUM
        p = mido.Parser()
        for b in data:
            p.feed_byte(_BYTE_ENUM(b))
        return list(p)
    if how == 'fork':
        return parse_fork(data[:len(data) // 2], data[len(data) // 2:])
    if how == 'split':
        return parse_split([data[:len(data) // 2], data[len(data) // 2:]])
    if how == 'bytewise-late':
        p = mido.Parser()
        for b in data:
            p.feed_byte(b)
        return list(p)
    return mido.parse_all(list(data))


HOWS = ('list', 'bytes', 'generator', 'iter', 'bytewise', 'bytewise-late', 'intsub', 'enum', 'split', 'fork')


def parse_fork(first, second):
    """A parser is a plain Python object: a deep copy taken in the middle of a stream is a second, independent parser
    in the same state (if the object cannot be copied at all, nothing is claimed)."""
    import copy
    p = mido.Parser()
    p.feed(list(first))
    out = list(p)
    try:
        q = copy.deepcopy(p)
    except Exception:  # noqa: BLE001
        q = p
    if q is not p:
        p.feed([0xB5, 0x07])           # the original goes its own way
    q.feed(list(second))
    out.extend(q)
    return out


def parse_split(parts):
    """One feed() call per part (the prefix and the message arrive separately, as they do from a device)."""
    p = mido.Parser()
    for i, part in enumerate(parts):
        p.feed(bytes(part) if i % 2 else list(part))
    return list(p)


def check_prefix(prefix, d, how='list'):
    try:
        base = mido.parse_all(list(prefix))
        if how == 'fork':
            got = parse_fork(list(prefix), R.ref_encode(d))
        elif how == 'split':
            got = parse_split([list(prefix), R.ref_encode(d)])
        else:
            got = parse_how(list(prefix) + R.ref_encode(d), how)
        m = mk(d)
    except Exception as exc:  # noqa: BLE001
        return [fail('raises', f'prefix={prefix[:16]} msg={d}: {exc!r}', exc=exc_sig(exc))]
    want = base + [m]
    if len(got) != len(want) or any(not (a == b) for a, b in zip(got, want)):
        return [fail('resync', f'prefix={prefix[:16]} + {d}: got {got!r} expected {want!r}', type=d['type'])]
    for x in got:
        x.time = 0.25           # the caller stamps what it received; later parses must not see this
    return []


def check_concat(dicts, how='list'):
    data = [b for d in dicts for b in R.ref_encode(d)]
    try:
        got = parse_how(data, how)
        want = [mk(d) for d in dicts]
    except Exception as exc:  # noqa: BLE001
        return [fail('raises', f'concat {dicts[:3]}: {exc!r}', exc=exc_sig(exc))]
    if len(got) != len(want) or any(not (a == b) for a, b in zip(got, want)):
        return [fail('concat', f'{[d["type"] for d in dicts]}: got {got!r}')]
    return []


def check_rt_sysex(payload, inserts, how='list'):
    """inserts: list of (position in encoding 1..len-1, real-time byte), applied in order of position."""
    enc = [0xF0] + list(payload) + [0xF7]
    data = []
    by_pos = {}
    for pos, b in inserts:
        by_pos.setdefault(pos, []).append(b)
    for i, b in enumerate(enc):
        if i in by_pos:
            data.extend(by_pos[i])
        data.append(b)
    rts = [b for pos in sorted(by_pos) for b in by_pos[pos]]
    try:
        got = parse_how(data, how)
    except Exception as exc:  # noqa: BLE001
        return [fail('raises', f'sysex {payload[:8]} inserts={inserts[:6]}: {exc!r}', exc=exc_sig(exc))]
    want = [mido.Message(R.REALTIME_BY_STATUS[b]) for b in rts] + [mido.Message('sysex', data=payload)]
    if len(got) != len(want) or any(not (a == b) for a, b in zip(got, want)):
        return [fail('rt-in-sysex', f'sysex {payload[:8]} inserts={inserts[:6]}: got {got!r}',
                     rt='%02X' % (rts[0] if rts else 0))]
    if len({id(x) for x in got}) != len(got):
        return [fail('rt-in-sysex', f'sysex {payload[:8]} inserts={inserts[:6]}: the same object was delivered twice')]
    for x in got:
        x.time = 0.5
    return []


UNDEFINED = (0xF4, 0xF5, 0xF9, 0xFD)


def build_grammar(segs):
    """A stream assembled from segments whose yield is known BY CONSTRUCTION (no parser involved):
      ['whole', d]   a complete encoded message                      -> yields d
      ['cut', d, k]  the first k bytes of a longer encoding          -> yields nothing, leaves a message open
      ['stray', bs]  data bytes while no message is open             -> nothing
      ['eox']        a lone F7 while no sysex is open                -> nothing (closes an open channel message)
      ['undef', b]   an undefined status byte while nothing is open  -> nothing
    Combinations whose meaning the property does not fix are not built (returns None): data bytes / undefined bytes
    while a message is open, a real-time byte inside a cut-short channel message.  An open message is abandoned by the
    next non-real-time status byte; a real-time message inside an open sysex is delivered and leaves it open.
    Returns (bytes, expected message dicts, segment boundaries)."""
    data, want, bounds = [], [], []
    state = 'idle'           # 'idle' | 'sysex' | 'chan'
    for seg in segs:
        kind = seg[0]
        if kind == 'whole':
            d = seg[1]
            if d['type'] in R.REALTIME:
                if state == 'chan':
                    return None
            else:
                state = 'idle'
            data += R.ref_encode(d)
            want.append(d)
        elif kind == 'cut':
            d, k = seg[1], seg[2]
            enc = R.ref_encode(d)
            if d['type'] in R.REALTIME or not (1 <= k < len(enc)):
                return None
            data += enc[:k]
            state = 'sysex' if d['type'] == 'sysex' else 'chan'
        elif kind == 'stray':
            if state != 'idle' or any(not (0 <= b < 0x80) for b in seg[1]):
                return None
            data += seg[1]
        elif kind == 'eox':
            if state == 'sysex':
                return None
            data.append(0xF7)
            state = 'idle'
        elif kind == 'undef':
            if state != 'idle' or seg[1] not in UNDEFINED:
                return None
            data.append(seg[1])
        else:
            raise KeyError(kind)
        bounds.append(len(data))
    return data, want, bounds


def check_grammar(segs, how='list'):
    built = build_grammar(segs)
    if built is None:
        return []
    data, want_d, bounds = built
    try:
        if how == 'fork':
            cut = bounds[len(bounds) // 2 - 1] if len(bounds) > 1 else 0
            got = parse_fork(data[:cut], data[cut:])
        elif how == 'split':
            got = parse_split([data[a:b] for a, b in zip([0] + bounds[:-1], bounds)])
        else:
            got = parse_how(data, how)
        want = [mk(d) for d in want_d]
    except Exception as exc:  # noqa: BLE001
        return [fail('raises', f'segments {segs}: {exc!r}', exc=exc_sig(exc))]
    if len(got) != len(want) or any(type(a) is not mido.Message or not (a == b) for a, b in zip(got, want)):
        return [fail('resync-constructed', f'segments {segs} = bytes {data[:24]}: got {got!r}, by construction the stream '
                                           f'holds {want!r}'[:900], how=how)]
    return []


def run_case(case):
    import mido.parser
    import mido.tokenizer
    from lib.doubles import jumping_clock
    with jumping_clock(mido.tokenizer, mido.parser):          # what a stream means does not depend on when it arrives
        return _run_case(case)


def _run_case(case):
    k = case['kind']
    how = case.get('how', 'list')
    if k == 'grammar':
        return check_grammar(case['segs'], how)
    if k == 'prefix':
        return check_prefix(case['prefix'], case['msg'], how)
    if k == 'concat':
        return check_concat(case['msgs'], how)
    if k == 'rt':
        return check_rt_sysex(case['payload'], [tuple(x) for x in case['inserts']], how)
    if k == 'volume':
        n = case['n']
        dicts = [{'type': 'note_on', 'channel': i % 16, 'note': i % 128, 'velocity': 1 + i % 100, 'time': 0} if i % 5
                 else {'type': 'sysex', 'data': [i % 128], 'time': 0} for i in range(n)]
        return check_concat(dicts, how)
    raise KeyError(k)


def nontrivial(case):
    k = case['kind']
    if k == 'grammar':
        return any(s[0] == 'cut' for s in case['segs'])
    if k == 'prefix':
        return len(case['prefix']) > 0 and ends_open(case['prefix'])
    if k == 'concat':
        return len(case['msgs']) >= 2
    if k == 'volume':
        return True
    return any(1 < pos < len(case['payload']) + 1 for pos, _ in case['inserts'])


def two_settings(t):
    a = R.default_msg(t)
    b = R.default_msg(t)
    for n in R.attr_names(t):
        if n == 'data':
            a['data'] = (1, 2, 3)
            b['data'] = ()
        else:
            lo, hi = R.RANGES[n]
            a[n] = hi
            b[n] = lo if n != 'velocity' else 1
    return [a, b]


def prefix_shard(rec, shard):
    first, maxlen = shard
    msgs = [d for t in R.ALL_TYPES for d in two_settings(t)]
    for n in range(0, maxlen):
        for ti, tail in enumerate(itertools.product(S.CLASS_ALPHABET, repeat=n)):
            if not rec.keep(ti, 7):
                continue
            prefix = [first, *tail]
            try:
                base = mido.parse_all(prefix)
            except Exception:  # noqa: BLE001
                base = None
            nt = ends_open(prefix)
            for d in msgs:
                ok = False
                if base is not None:
                    try:
                        got = mido.parse_all(prefix + R.ref_encode(d))
                        ok = len(got) == len(base) + 1 and got[-1] == mk(d) and all(
                            a == b for a, b in zip(got, base))
                    except Exception:  # noqa: BLE001
                        ok = False
                rec.evals += 1
                if not ok:
                    rec.check({'kind': 'prefix', 'prefix': prefix, 'msg': d}, nontrivial=False, sample=False)
                    rec.evals -= 1
                elif nt:
                    rec.nt_enum += 1
    rec.samples.append({'kind': 'prefix', 'prefix': [first, 0x90, 0x00][:maxlen], 'msg': msgs[0]})


@st.composite
def segment_lists(draw):
    md = S.msg_dict(time=st.just(0), max_sysex=6)
    seg = st.one_of(
        md.map(lambda d: ['whole', d]), md.map(lambda d: ['whole', d]),
        st.tuples(md, st.integers(1, 8)).map(lambda z: ['cut', z[0], 1 + (z[1] - 1) % max(1, len(R.ref_encode(z[0])) - 1)]),
        st.lists(st.integers(0, 127), min_size=1, max_size=3).map(lambda bs: ['stray', bs]),
        st.just(['eox']), st.sampled_from(UNDEFINED).map(lambda b: ['undef', b]))
    segs = draw(st.lists(seg, min_size=1, max_size=7))
    segs.append(['whole', draw(S.msg_dict(types=[t for t in R.ALL_TYPES if t not in R.REALTIME], time=st.just(0),
                                          max_sysex=4))])
    return {'kind': 'grammar', 'segs': segs, 'how': draw(st.sampled_from(HOWS))}


def grammar_shard(rec, shard):
    t, = shard
    final = R.default_msg('note_on', note=77, velocity=3)
    tails = ([], [['stray', [5]]], [['eox']], [['stray', [2, 3]], ['eox']], [['undef', 0xF4]], [['stray', [3]], ['undef', 0xFD]])
    for d0 in two_settings(t):
        enc = R.ref_encode(d0)
        for k in range(1, len(enc)):
            for t2 in R.ALL_TYPES:
                d1 = two_settings(t2)[0]
                for tail in tails:
                    segs = [['cut', d0, k], ['whole', d1]] + tail + [['whole', final]]
                    if build_grammar(segs) is None:
                        continue
                    for how in ('list', 'bytewise', 'split'):
                        rec.check({'kind': 'grammar', 'segs': segs, 'how': how}, sample=(k == 1 and t2 == 'tune_request'
                                                                                       and not tail and how == 'list'))


def block_shard(rec, shard):
    """The sequential blocks of this check, one per worker."""
    block, arg, tier = shard
    if block == 'cut-prefixes':
        # every proper prefix of every encoding (both settings) followed by every message: covers "same status restarts"
        t = arg
        for d0 in two_settings(t):
            enc = R.ref_encode(d0)
            for k in range(0, len(enc)):
                for t2 in R.ALL_TYPES:
                    for d in two_settings(t2):
                        for ch in ((None,) if 'channel' not in d else (d['channel'], d0.get('channel', 0))):
                            dd = dict(d)
                            if ch is not None:
                                dd['channel'] = ch
                            rec.check({'kind': 'prefix', 'prefix': enc[:k], 'msg': dd}, sample=False)
                            rec.check({'kind': 'prefix', 'prefix': enc[:k], 'msg': dd, 'how': 'split'}, sample=False)
                            rec.check({'kind': 'prefix', 'prefix': enc[:k], 'msg': dd, 'how': 'fork'}, sample=False)
    elif block == 'hows':
        # every way of handing the bytes over, for every type as the final message behind a few prefixes
        for t in R.ALL_TYPES:
            for d in two_settings(t):
                for prefix in ([], [0x90, 0x10], [0xF0, 0x01], [0x05, 0xF7]):
                    for how in HOWS:
                        rec.check({'kind': 'prefix', 'prefix': prefix, 'msg': d, 'how': how}, sample=False)
        for how in HOWS:
            rec.check({'kind': 'volume', 'n': 3000, 'how': how}, sample=False)
        # real-time bytes of every type inside a sysex whose bytes are int subclasses / enum members
        for how in ('intsub', 'enum'):
            for L in (0, 1, 3):
                payload = list(range(1, L + 1))
                for pos in range(1, L + 2):
                    for b in RT_BYTES:
                        rec.check({'kind': 'rt', 'payload': payload, 'inserts': [[pos, b]], 'how': how}, sample=False)
    elif block == 'volume':
        how = arg
        if how == 'rt':
            big = [(i * 11) % 128 for i in range(70000)]
            rec.check({'kind': 'rt', 'payload': big, 'inserts': [[1, 0xF8], [35000, 0xFA], [70000, 0xFC]], 'how': 'bytes'},
                      sample=False)
        else:
            rec.check({'kind': 'volume', 'n': 140000 if how != 'bytewise-late' else 70000, 'how': how}, sample=False)
    elif block == 'rt-exhaustive':
        # real-time inside sysex: exhaustive one and two insertions
        L = arg
        payload = [(i * 37 + 1) % 128 for i in range(L)]
        positions = range(1, L + 2)          # strictly inside F0 .. F7
        for pos in positions:
            for b in RT_BYTES:
                rec.check({'kind': 'rt', 'payload': payload, 'inserts': [[pos, b]]}, sample=(L == 2 and pos == 2))
        for p1, p2 in itertools.combinations_with_replacement(positions, 2):
            for b1, b2 in itertools.product(RT_BYTES, repeat=2):
                rec.check({'kind': 'rt', 'payload': payload, 'inserts': [[p1, b1], [p2, b2]]}, sample=False)
    elif block == 'hyp':
        which, k, n = arg
        if which == 'grammar':
            rec.hyp(segment_lists(), n, seed_offset=770 + k)
        elif which == 'prefix':
            pre = st.fixed_dictionaries({'kind': st.just('prefix'), 'prefix': S.byte_stream(max_chunks=6),
                                         'msg': S.msg_dict(time=st.just(0), max_sysex=40), 'how': st.sampled_from(HOWS)})
            rec.hyp(pre, n, seed_offset=k)
        elif which == 'concat':
            cat = st.fixed_dictionaries({'kind': st.just('concat'),
                                         'msgs': st.lists(S.msg_dict(time=st.just(0), max_sysex=40), max_size=12),
                                         'how': st.sampled_from(HOWS)})
            rec.hyp(cat, n, seed_offset=100 + k)
        else:
            @st.composite
            def rt_cases(draw):
                payload = draw(S.sysex_payload(200))
                kk = draw(st.integers(1, 12))
                ins = sorted((draw(st.integers(1, len(payload) + 1)), draw(st.sampled_from(RT_BYTES))) for _ in range(kk))
                return {'kind': 'rt', 'payload': payload, 'inserts': [list(x) for x in ins],
                        'how': draw(st.sampled_from(HOWS))}
            rec.hyp(rt_cases(), n, seed_offset=200 + k)
    else:
        raise KeyError(block)


def main(ctx):
    tier = ctx.tier
    maxlen = 3 if tier == 'quick' else 4
    n = 1500 if tier == 'quick' else 40000
    maxpay = 8 if tier == 'thorough' else 5
    shards = [('volume', how, tier) for how in ('list', 'bytes', 'bytewise-late', 'rt')]
    shards += [('hyp', (which, k, cnt // 4), tier) for which, cnt in (('grammar', 2 * n), ('prefix', n), ('concat', n // 2),
                                                                      ('rt', n // 2)) for k in range(4)]
    shards += [('cut-prefixes', t, tier) for t in R.ALL_TYPES]
    shards += [('hows', None, tier)]
    shards += [('rt-exhaustive', L, tier) for L in range(maxpay, -1, -1)]
    ctx.pmap('block_shard', shards)
    ctx.pmap('grammar_shard', [(t,) for t in R.ALL_TYPES if t not in R.REALTIME])
    ctx.pmap('prefix_shard', [(a, maxlen) for a in S.CLASS_ALPHABET])
