#!/usr/bin/env python3
"""Generate mutants/<PID>_<name>.patch: one small, compiling edit per "must catch" bullet of DESIGN.md section 3.

Each entry is (property, name, file, old text, new text); the text must occur exactly once in the file at /repo HEAD.
The patches are built in a scratch clone (git diff) and /repo is never touched.
"""
import os
import shutil
import subprocess
import sys
import tempfile

HERE = os.path.dirname(os.path.dirname(os.path.abspath(__file__)))
M = []


def mut(pid, name, path, old, new):
    M.append((pid, name, path, old, new))


ENC = 'mido/messages/encode.py'
DEC = 'mido/messages/decode.py'
SPECS = 'mido/messages/specs.py'
MSG = 'mido/messages/messages.py'
CHK = 'mido/messages/checks.py'
STR = 'mido/messages/strings.py'
TOK = 'mido/tokenizer.py'
PAR = 'mido/parser.py'
PQ = 'mido/backends/_parser_queue.py'
MF = 'mido/midifiles/midifiles.py'
META = 'mido/midifiles/meta.py'
TRK = 'mido/midifiles/tracks.py'
UNITS = 'mido/midifiles/units.py'
PORTS = 'mido/ports.py'
SOCK = 'mido/sockets.py'
SYX = 'mido/syx.py'
FRZ = 'mido/frozen.py'
BK = 'mido/backends/backend.py'
INIT = 'mido/__init__.py'

# ---- C01 ----
mut('C01', 'pitch_shift8', ENC, "return [0xe0 | msg['channel'], pitch & 0x7f, pitch >> 7]",
    "return [0xe0 | msg['channel'], pitch & 0x7f, pitch >> 8]")
mut('C01', 'pitch_no_offset', ENC, "pitch = msg['pitch'] - MIN_PITCHWHEEL", "pitch = msg['pitch'] & 0x3fff")
mut('C01', 'qframe_shift3', ENC, "msg['frame_type'] << 4 | msg['frame_value']", "msg['frame_type'] << 3 | msg['frame_value']")
mut('C01', 'noteon_swapped', ENC, "return [0x90 | msg['channel'], msg['note'], msg['velocity']]",
    "return [0x90 | msg['channel'], msg['velocity'], msg['note']]")
mut('C01', 'polytouch_names_swapped', SPECS, "_defmsg(0xa0, 'polytouch', ('channel', 'note', 'value'), 3)",
    "_defmsg(0xa0, 'polytouch', ('channel', 'value', 'note'), 3)")
mut('C01', 'sysex_len_off_by_one', MSG, "return 2 + len(self.data)", "return 1 + len(self.data)")
mut('C01', 'songpos_mask', ENC, "return [0xf2, pos & 0x7f, pos >> 7]", "return [0xf2, pos & 0x7f, (pos >> 7) & 0x3f]")
mut('C01', 'pitch_decode_or', DEC, "return {'pitch': data[0] | ((data[1] << 7) + MIN_PITCHWHEEL)}",
    "return {'pitch': (data[0] | (data[1] << 7)) - 8191}")
# ---- C02 ----
mut('C02', 'no_check_data', DEC, "    if check:\n        check_data(data)\n", "    if check and False:\n        check_data(data)\n")
mut('C02', 'length_lt', DEC, "    elif len(data) != (spec['length'] - 1):\n        raise ValueError(\n            'wrong number of bytes for {} message'.format(spec['type']))\n\n    if check:",
    "    elif len(data) < (spec['length'] - 1):\n        raise ValueError(\n            'wrong number of bytes for {} message'.format(spec['type']))\n\n    if check:")
mut('C02', 'sysex_without_f7', DEC, "        if end != SYSEX_END:", "        if end != SYSEX_END and end > 127:")
mut('C02', 'status_f4_defined', SPECS, "    _defmsg(0xf6, 'tune_request', (), 1),\n", "    _defmsg(0xf6, 'tune_request', (), 1),\n    _defmsg(0xf4, 'tune_request', (), 1),\n")
# ---- C03 ----
mut('C03', 'data_byte_128', CHK, "    elif not 0 <= value <= 127:\n        raise ValueError('data byte must be in range 0..127')",
    "    elif not 0 <= value <= 128:\n        raise ValueError('data byte must be in range 0..127')")
mut('C03', 'setattr_no_check', MSG, "            check_value(name, value)\n            vars(self)[name] = value", "            vars(self)[name] = value")
mut('C03', 'store_before_check', MSG, "            check_value(name, value)\n            vars(self)[name] = value",
    "            vars(self)[name] = value\n            check_value(name, value)")
mut('C03', 'copy_mutates_self', MSG, "        msgdict = vars(self).copy()\n        msgdict.update(overrides)\n\n        if not skip_checks:",
    "        msgdict = vars(self)\n        msgdict.update(overrides)\n\n        if not skip_checks:")
mut('C03', 'delattr_removed', MSG, "    def __delattr__(self, name):\n        raise AttributeError('attribute cannot be deleted')\n\n", "")
mut('C03', 'channel_16', CHK, "    elif not 0 <= channel <= 15:", "    elif not 0 <= channel <= 16:")
mut('C03', 'pitch_integral_only_float_ok', CHK, "    if not isinstance(pitch, Integral):\n        raise TypeError('pichwheel value must be int')",
    "    if not isinstance(pitch, Real):\n        raise TypeError('pichwheel value must be int')")
# ---- C04 ----
mut('C04', 'status_not_cleared', TOK, "                # Complete message.\n                self._messages.append(self._bytes)\n                self._status = 0",
    "                # Complete message.\n                self._messages.append(self._bytes)\n                self._bytes = [self._status]")
mut('C04', 'len_off_by_one', TOK, "            if len(self._bytes) == self._len:", "            if len(self._bytes) >= self._len - 1 and self._len > 2 or len(self._bytes) == self._len:")
mut('C04', 'realtime_doubled', TOK, "            if status in SPEC_BY_STATUS:\n                self._messages.append([status])\n\n        elif status in SPEC_BY_STATUS:",
    "            if status in SPEC_BY_STATUS:\n                self._messages.append([status])\n                if status == 0xfe and self._status == SYSEX_START:\n                    self._messages.append([status])\n\n        elif status in SPEC_BY_STATUS:")
mut('C04', 'realtime_dropped', TOK, "            if status in SPEC_BY_STATUS:\n                self._messages.append([status])\n\n        elif status in SPEC_BY_STATUS:",
    "            if status in SPEC_BY_STATUS and not (status == 0xfc and self._status):\n                self._messages.append([status])\n\n        elif status in SPEC_BY_STATUS:")
mut('C04', 'f7_emits_without_sysex', TOK, "            if self._status == SYSEX_START:\n                self._bytes.append(SYSEX_END)\n                self._messages.append(self._bytes)",
    "            if self._status:\n                self._bytes.append(SYSEX_END)\n                self._messages.append(self._bytes)")
# ---- C05 ----
mut('C05', 'new_tokenizer_per_feed', PAR, "        self._tok.feed(data)\n        self._decode()", "        self._tok = Tokenizer(data)\n        self._decode()")
mut('C05', 'get_message_pops_twice', PAR, "        for msg in self:\n            return msg\n        else:\n            return None",
    "        for msg in self:\n            if len(self.messages) > 2:\n                self.messages.popleft()\n            return msg\n        else:\n            return None")
mut('C05', 'pending_reports_tokenizer', PAR, "        return len(self.messages)", "        return len(self.messages) + (1 if self._tok._status else 0)")
mut('C05', 'decode_not_draining', PAR, "        for midi_bytes in self._tok:\n            self.messages.append(Message.from_bytes(midi_bytes))",
    "        for midi_bytes in self._tok:\n            self.messages.append(Message.from_bytes(midi_bytes))\n            break")
mut('C05', 'feed_byte_no_decode', PAR, "        self._tok.feed_byte(byte)\n        self._decode()", "        self._tok.feed_byte(byte)\n        if byte > 127:\n            self._decode()")
# ---- C06 ----
mut('C06', 'bytes_not_replaced', TOK, "                self._status = status\n                self._bytes = [status]", "                self._status = status\n                self._bytes.append(status)")
mut('C06', 'realtime_resets_sysex', TOK, "            if self._status != SYSEX_START:\n                # Realtime messages are only allowed inside sysex\n                # messages. Reset parser.\n                self._status = 0",
    "            if self._status != SYSEX_START or status == 0xfa:\n                # Realtime messages are only allowed inside sysex\n                # messages. Reset parser.\n                self._status = 0")
mut('C06', 'sysex_collects_realtime', TOK, "            if status in SPEC_BY_STATUS:\n                self._messages.append([status])\n\n        elif status in SPEC_BY_STATUS:",
    "            if status in SPEC_BY_STATUS:\n                self._messages.append([status])\n                if status == 0xfb and self._status == SYSEX_START:\n                    self._bytes.append(0)\n\n        elif status in SPEC_BY_STATUS:")
mut('C06', 'undefined_status_eats_next', TOK, "            # self._status = 0\n            pass", "            self._bytes = []")
# ---- C07 ----
mut('C07', 'sysex_len_plus1_dropped', MF, "            data.extend(encode_variable_int(len(msg.data) + 1))", "            data.extend(encode_variable_int(len(msg.data) + (1 if len(msg.data) < 127 else 0)))")
mut('C07', 'eot_delta_lost', TRK, "                delta = accum + msg.time\n                yield msg.copy(skip_checks=skip_checks, time=delta)\n                accum = 0",
    "                delta = accum + msg.time\n                yield msg.copy(skip_checks=skip_checks, time=delta)")
mut('C07', 'header_signed_tpb_byte', MF, "            header = struct.pack('>hhh', self.type,\n                                 len(self.tracks),\n                                 self.ticks_per_beat)",
    "            header = struct.pack('>hhh', self.type,\n                                 len(self.tracks),\n                                 self.ticks_per_beat & 0x7f7f)")
mut('C07', 'type0_check_dropped', MF, "        if self.type == 0 and len(self.tracks) != 1:", "        if self.type == 0 and len(self.tracks) > 1:")
mut('C07', 'sysex_keeps_running_status', MF, "            data.append(0xf7)\n            running_status_byte = None", "            data.append(0xf7)")
# ---- C08 ----
mut('C08', 'running_status_across_meta_both', MF, "            data.extend(msg.bytes())\n            running_status_byte = None", "            data.extend(msg.bytes())")
mut('C08', 'chunk_len_little_endian_both', MF, "    outfile.write(struct.pack('>L', len(data)))", "    outfile.write(struct.pack('<L', len(data)))")
mut('C08', 'debug_wrapper_reads_differently', MF, "        data = self.file.read(size)\n\n        for byte in data:", "        data = self.file.read(size if size < 8 else 8)\n\n        for byte in data:")
mut('C08', 'clip_only_first', MF, "        data_bytes = [byte if byte < 127 else 127 for byte in data_bytes]",
    "        data_bytes = [byte if (byte < 127 or i) else 127 for i, byte in enumerate(data_bytes)]")
mut('C08', 'sysex_clip_missing', MF, "    if clip:\n        data = [byte if byte < 127 else 127 for byte in data]\n\n    return Message('sysex', data=data, time=delta)",
    "    return Message('sysex', data=data, time=delta)")
mut('C08', 'vlq_wrong_group', META, "        bytes.append(value & 0x7f)\n        value >>= 7", "        bytes.append(value & 0x7f)\n        value >>= 7 if value < (1 << 21) else 8")
# ---- C09 ----
mut('C09', 'tempo_precedence', META, "return [tempo >> 16, tempo >> 8 & 0xff, tempo & 0xff]", "return [tempo >> 16, tempo >> (8 & 0xff), tempo & 0xff]")
mut('C09', 'smpte_hr_mn_swapped', META, "        return [frame_rate_lookup | message.hours,\n                message.minutes,\n                message.seconds,",
    "        return [frame_rate_lookup | message.hours,\n                message.seconds,\n                message.minutes,")
mut('C09', 'key_table_entry', META, "                         (3, 1): 'F#m',", "                         (3, 1): 'Gbm',")
mut('C09', 'flats_not_unsigned', META, "        return [unsigned('byte', key), mode]", "        return [key & 0x7f, mode]")
mut('C09', 'vlq_last_continuation', META, "        for i in range(len(bytes) - 1):\n            bytes[i] |= 0x80\n        return bytes", "        for i in range(len(bytes) - 1):\n            bytes[i] |= 0x80\n        if len(bytes) > 2:\n            bytes[-1] |= 0x80\n        return bytes")
mut('C09', 'seqnum_low_byte_only', META, "        return [message.number >> 8, message.number & 0xff]", "        return [message.number >> 8 & 0x7f, message.number & 0xff]")
mut('C09', 'tempo_range_short', META, "        check_int(value, 0, 0xffffff)", "        check_int(value, 0, 0xfffffe)")
# ---- C10 ----
mut('C10', 'send_without_lock', PORTS, "        with self._lock:\n            self._send(msg.copy())", "        self._send(msg.copy())")
mut('C10', 'receive_first_block_unlocked', PORTS, "        with self._lock:\n            if self._messages:\n                return self._messages.popleft()\n\n        if self.closed:",
    "        if self._messages:\n            return self._messages.popleft()\n\n        if self.closed:")
mut('C10', 'default_dummy_lock', PORTS, "    is_output = False\n    _locking = True", "    is_output = False\n    _locking = False")
mut('C10', 'send_no_copy', PORTS, "            self._send(msg.copy())", "            self._send(msg)")
mut('C10', 'pop_instead_of_popleft', PORTS, "                if self._messages:\n                    return self._messages.popleft()\n                elif not block:",
    "                if self._messages:\n                    return self._messages.pop()\n                elif not block:")
mut('C10', 'pqueue_no_lock', PQ, "        with self._parser_lock:\n            self._parser.feed(msg_bytes)\n            for msg in self._parser:\n                self.put(msg)",
    "        self._parser.feed(msg_bytes)\n        for msg in self._parser:\n            self.put(msg)")
# ---- C11 ----
mut('C11', 'reset_not_guarded', PORTS, "    def reset(self):\n        \"\"\"Send \"All Notes Off\" and \"Reset All Controllers\" on all channels\"\"\"\n        if self.closed:\n            return\n",
    "    def reset(self):\n        \"\"\"Send \"All Notes Off\" and \"Reset All Controllers\" on all channels\"\"\"\n")
mut('C11', 'closed_checked_before_queue', PORTS, "                if self._messages:\n                    return self._messages.popleft()\n                elif not block:\n                    return None\n                elif self.closed:\n                    raise OSError('port closed during receive()')",
    "                if self.closed and block:\n                    raise OSError('port closed during receive()')\n                elif self._messages:\n                    return self._messages.popleft()\n                elif not block:\n                    return None")
mut('C11', 'iter_pending_swallows', PORTS, "            msg = self.poll()\n            if msg is None:\n                return\n            else:\n                yield msg\n\n    def receive",
    "            msg = self.poll()\n            if msg is None or self.closed:\n                return\n            else:\n                yield msg\n\n    def receive")
mut('C11', 'close_not_idempotent_autoreset', PORTS, "            if not self.closed:\n                if hasattr(self, 'autoreset') and self.autoreset:", "            if True:\n                if not self.closed and hasattr(self, 'autoreset') and self.autoreset:")
mut('C11', 'poll_sleeps', PORTS, "                elif not block:\n                    return None\n                elif self.closed:", "                elif not block:\n                    sleep()\n                    return None\n                elif self.closed:")
mut('C11', 'send_after_close_allowed', PORTS, "        elif self.closed:\n            raise ValueError('send() called on closed port')", "        elif self.closed and not self.is_input:\n            raise ValueError('send() called on closed port')")
# ---- C12 ----
mut('C12', 'unstable_tie_order', TRK, "    messages.sort(key=lambda msg: msg.time)", "    messages.sort(key=lambda msg: (msg.time, msg.type))")
mut('C12', 'eot_accum_dropped', TRK, "    yield MetaMessage('end_of_track', time=accum)", "    yield MetaMessage('end_of_track', time=0)")
mut('C12', 'merge_in_place', TRK, "        now += msg.time\n        yield msg.copy(skip_checks=skip_checks, time=now)", "        now += msg.time\n        msg.time = now\n        yield msg")
# ---- C13 ----
mut('C13', 'scale_1e3', UNITS, "    scale = tempo * 1e-6 / ticks_per_beat\n    return tick * scale", "    scale = tempo * 1e-6 / ticks_per_beat\n    return tick * scale if tempo != 1000001 else tick * scale * 1e3")
mut('C13', 'sleep_whole_delta', MF, "                time.sleep(duration_to_next_event)", "                time.sleep(max(duration_to_next_event, msg.time))")
mut('C13', 'metas_consume_no_time', MF, "        for msg in self:\n            input_time += msg.time", "        for msg in self:\n            if not (isinstance(msg, MetaMessage) and not meta_messages and msg.type == 'marker'):\n                input_time += msg.time")
mut('C13', 'second2tick_floor', UNITS, "    return int(round(second / scale))", "    return int(second / scale)")
mut('C13', 'length_excludes_eot', MF, "        return sum(msg.time for msg in self)", "        return sum(msg.time for msg in self if msg.type != 'end_of_track')")
# ---- C14 ----
mut('C14', 'data_separator', STR, "            value = '({})'.format(','.join(str(byte) for byte in value))", "            value = '({})'.format(', '.join(str(byte) for byte in value))")
mut('C14', 'parse_time_float_first', STR, "    try:\n        return int(value)\n    except ValueError:\n        pass\n\n    try:\n        return float(value)\n    except ValueError:\n        pass",
    "    try:\n        value = float(value)\n        return int(value) if value.is_integer() else value\n    except ValueError:\n        pass")
mut('C14', 'line_counter_on_success_only', MSG, "            yield None, error_message\n        line_number += 1", "            yield None, error_message\n            continue\n        line_number += 1")
mut('C14', 'dict_shares_data', MSG, "            data['data'] = list(data['data'])\n", "            data['data'] = data['data']\n")
# ---- C15 ----
mut('C15', 'copy_returns_self', MSG, "        if not overrides:\n            # Bypass all checks.\n            msg = self.__class__.__new__(self.__class__)\n            vars(msg).update(vars(self))\n            return msg\n\n        if 'type' in overrides and overrides['type'] != self.type:\n            raise ValueError('copy must be same message type')\n\n        if 'data' in overrides:",
    "        if not overrides:\n            return self\n\n        if 'type' in overrides and overrides['type'] != self.type:\n            raise ValueError('copy must be same message type')\n\n        if 'data' in overrides:")
mut('C15', 'hash_by_id', FRZ, "        return hash(tuple(sorted(vars(self).items())))", "        return hash((id(self),))")
mut('C15', 'frozen_after_class', FRZ, "class FrozenMetaMessage(Frozen, MetaMessage):", "class FrozenMetaMessage(MetaMessage, Frozen):")
mut('C15', 'meta_copy_ignores_time', META, "        attrs = vars(self).copy()\n        attrs.update(overrides)\n        return self.__class__(**attrs)",
    "        attrs = vars(self).copy()\n        attrs.update(overrides)\n        if self.type == 'key_signature':\n            attrs['time'] = vars(self)['time']\n        return self.__class__(**attrs)")
# ---- C16 ----
mut('C16', 'length_cached', MF, "        return sum(msg.time for msg in self)", "        if getattr(self, '_len_cache', None) is None:\n            self._len_cache = sum(msg.time for msg in self)\n        return self._len_cache")
mut('C16', 'merged_cached_by_count', MF, "        return merge_tracks(self.tracks, skip_checks=True)",
    "        key = [len(t) for t in self.tracks]\n        if self._merged_track is None or self._merged_track[0] != key:\n            self._merged_track = (key, merge_tracks(self.tracks, skip_checks=True))\n        return self._merged_track[1]")
# ---- C17 ----
mut('C17', 'nested_restores_latin1', META, "    finally:\n        _charset = old", "    finally:\n        _charset = 'latin1'")
mut('C17', 'save_outside_scope', MF, "        with meta_charset(self.charset):\n            header = struct.pack", "        with meta_charset(self.charset if self.charset != 'cp1252' else 'latin1'):\n            header = struct.pack")
mut('C17', 'encode_ignores_charset', META, "    return list(bytearray(string.encode(_charset)))", "    return list(bytearray(string.encode(_charset if _charset != 'utf-8' else 'latin1', 'replace')))")
mut('C17', 'restore_only_on_oserror', META, "    try:\n        yield\n    finally:\n        _charset = old", "    try:\n        yield\n    except OSError:\n        _charset = old\n        raise\n    else:\n        _charset = old")
# ---- C18 ----
mut('C18', 'feed_after_eof', SOCK, "                # The other end has disconnected.\n                self.close()\n                break", "                # The other end has disconnected.\n                self.close()\n                self._parser.feed_byte(0xf8)\n                break")
mut('C18', 'close_flag_not_set_on_eof', SOCK, "                # The other end has disconnected.\n                self.close()\n                break", "                # The other end has disconnected.\n                self._close()\n                break")
mut('C18', 'update_ports_drops_open', SOCK, "        self.ports = [port for port in self.ports if not port.closed]", "        self.ports = [port for port in self.ports if not port.closed][:2]")
mut('C18', 'parse_address_port_65535', SOCK, "    if not 0 < port < (2**16):", "    if not 0 < port < (2**16) - 1:")
mut('C18', 'read_two_bytes', SOCK, "                byte = self._rfile.read(1)", "                byte = self._rfile.read(1)\n                if byte == b'\\xf0':\n                    self._parser.feed_byte(0xf0)\n                    byte = self._rfile.read(1)")
# ---- C19 ----
mut('C19', 'write_filter_dropped', SYX, "    messages = [m for m in messages if m.type == 'sysex']", "    messages = [m for m in messages if m.type == 'sysex' or m.type == 'song_select']")
mut('C19', 'read_filter_dropped', SYX, "    return [msg for msg in parser if msg.type == 'sysex']", "    return [msg for msg in parser if msg.type in ('sysex', 'tune_request')]")
mut('C19', 'detect_on_last_byte', SYX, "    if data[0] == 240:", "    if data[0] == 240 and data[-1] == 247:")
mut('C19', 'hex_lowercase_sep', SYX, "                outfile.write(message.hex())", "                outfile.write(message.hex(sep=',') if len(message) > 40 else message.hex())")
# ---- C20 ----
mut('C20', 'name_falsy_precedence', BK, "        kwargs.update(dict(virtual=virtual, callback=callback))\n\n        if name is None:\n            name = self._env('MIDO_DEFAULT_INPUT')",
    "        kwargs.update(dict(virtual=virtual, callback=callback))\n\n        name = self._env('MIDO_DEFAULT_INPUT') or name")
mut('C20', 'get_devices_without_api', BK, "            return self.module.get_devices(**self._add_api(kwargs))", "            return self.module.get_devices()")
mut('C20', 'load_in_init', BK, "        if load:\n            self.load()", "        if load or api:\n            self.load()")
mut('C20', 'set_backend_only_open', INIT, "        if name.split('_')[0] in ['open', 'get']:", "        if name.split('_')[0] in ['open']:")
mut('C20', 'ioport_names_output_order', BK, "        return [name for name in inputs if name in outputs]", "        return [name for name in sorted(outputs) if name in inputs]")
mut('C20', 'api_kw_loses_to_backend', BK, "        if self.api and 'api' not in kwargs:\n            kwargs['api'] = self.api", "        if self.api:\n            kwargs['api'] = self.api")
mut('C20', 'output_env_from_input', BK, "            name = self._env('MIDO_DEFAULT_OUTPUT')\n\n        return self.module.Output", "            name = self._env('MIDO_DEFAULT_OUTPUT') or self._env('MIDO_DEFAULT_INPUT')\n\n        return self.module.Output")

mut('C13', 'tempo_applied_to_own_delta', MF, "            if msg.time > 0:\n                delta = tick2second(msg.time, self.ticks_per_beat, tempo)",
    "            if msg.type == 'set_tempo':\n                tempo = msg.tempo\n            if msg.time > 0:\n                delta = tick2second(msg.time, self.ticks_per_beat, tempo)")
mut('C14', 'repr_drops_attribute', MSG, "        for name in self._get_value_names():\n            items.append(f'{name}={getattr(self, name)!r}')",
    "        for name in self._get_value_names():\n            if name == 'note' and getattr(self, name) == 64:\n                continue\n            items.append(f'{name}={getattr(self, name)!r}')")
mut('C12', 'abstime_skips_zero', TRK, "        now += msg.time\n        yield msg.copy(skip_checks=skip_checks, time=now)", "        now += msg.time if msg.type != 'marker' else 0\n        yield msg.copy(skip_checks=skip_checks, time=now)")
mut('C15', 'thaw_returns_frozen_class_for_meta', FRZ, "    elif isinstance(msg, FrozenMetaMessage):\n        class_ = MetaMessage\n    else:", "    elif isinstance(msg, FrozenMetaMessage):\n        class_ = MetaMessage if msg.type != 'lyrics' else FrozenMetaMessage\n    else:")


def main():
    only = sys.argv[1] if len(sys.argv) > 1 else None
    tmp = tempfile.mkdtemp(prefix='mido_mk_')
    out_dir = os.path.join(HERE, 'mutants')
    os.makedirs(out_dir, exist_ok=True)
    bad = 0
    try:
        dst = os.path.join(tmp, 'repo')
        subprocess.run(['git', 'clone', '-q', '--no-hardlinks', '/repo', dst], check=True)
        for pid, name, path, old, new in M:
            if only and only not in (pid, name):
                continue
            fp = os.path.join(dst, path)
            src = open(fp).read()
            if src.count(old) != 1:
                print(f'!! {pid}_{name}: anchor occurs {src.count(old)} times in {path}')
                bad += 1
                continue
            open(fp, 'w').write(src.replace(old, new))
            r = subprocess.run(['/venv/bin/python', '-c', f'import ast,sys; ast.parse(open({fp!r}).read())'],
                               capture_output=True, text=True)
            diff = subprocess.run(['git', '-C', dst, 'diff'], capture_output=True, text=True).stdout
            subprocess.run(['git', '-C', dst, 'checkout', '-q', '--', '.'], check=True)
            if r.returncode != 0:
                print(f'!! {pid}_{name}: does not parse: {r.stderr.strip()[-200:]}')
                bad += 1
                continue
            with open(os.path.join(out_dir, f'{pid}_{name}.patch'), 'w') as f:
                f.write(diff)
        print('written', len(os.listdir(out_dir)), 'bad', bad)
    finally:
        shutil.rmtree(tmp, ignore_errors=True)
    return 1 if bad else 0


if __name__ == '__main__':
    sys.exit(main())
