#!/usr/bin/env python3
"""One-off helper: revert one fix commit in a scratch copy, run a property's check there, and keep the (shrunk) replay
files it reports as committed regressions  regressions/<PID>/<tag>-<n>.json."""
import json
import os
import re
import shutil
import subprocess
import sys

HERE = os.path.dirname(os.path.dirname(os.path.abspath(__file__)))
sys.path.insert(0, os.path.join(HERE, 'tools'))
import mutation_audit as MA  # noqa: E402


def main():
    pid, tag, commit = sys.argv[1:4]
    patch = f'/tmp/fixes/{commit}.patch'
    if not os.path.exists(patch):
        os.makedirs('/tmp/fixes', exist_ok=True)
        with open(patch, 'w') as f:
            f.write(subprocess.run(['git', '-C', '/repo', 'show', commit], capture_output=True, text=True).stdout)
    rc, out = MA.run_one(pid, patch, reverse=True, verbose=False)
    reps = re.findall(r'VIOLATION property=\S+ replay=(\S+)', out)
    if rc != 1 or not reps:
        print(pid, tag, 'NOT CAUGHT', rc)
        return 1
    os.makedirs(os.path.join(HERE, 'regressions', pid), exist_ok=True)
    kept = 0
    seen = set()
    for r in reps:
        data = json.load(open(os.path.join(HERE, r)))
        sig = data['failures'][0]['sig']
        if sig in seen or kept >= 3:
            continue
        seen.add(sig)
        data['origin'] = f'shrunk case that fails when fix {commit} ({tag}) is reverted'
        with open(os.path.join(HERE, 'regressions', pid, f'{tag}-{kept}.json'), 'w') as f:
            json.dump(data, f, indent=1)
        kept += 1
    print(pid, tag, 'kept', kept)
    return 0


if __name__ == '__main__':
    sys.exit(main())
