"""Shared driver for all property checks.

A check module (checks/cXX_*.py) provides

    PID, LEVEL, RULE            identification, evidence level, non-trivial rule text
    run_case(case) -> [failure] pure function of a JSON-serialisable case and the code under test
    main(ctx)                   generation: calls ctx.run(case, ...) / ctx.hyp(...) / ctx.pmap(...)
    KNOWN = {kf_id: matcher}    optional: matcher(case, failure) -> bool for recorded findings

Exit codes: 0 held, 1 violation (VIOLATION line printed), 2 harness error.
"""
import hashlib
import json
import multiprocessing
import os
import signal
import sys
import threading
import time
import traceback
from collections import Counter

VERIF = os.path.dirname(os.path.dirname(os.path.abspath(__file__)))
REPO = os.environ.get('MIDO_REPO', '/repo')
NPROC = int(os.environ.get('VERIF_NPROC', '16'))


class HarnessError(Exception):
    pass


class CaseTimeout(BaseException):
    pass


class Violation(Exception):
    """Raised inside Hypothesis tests so that the failing case gets shrunk."""


def fail(clause, detail, **facts):
    """Build a failure record.  `sig` groups failures by root cause."""
    sig = clause
    if facts:
        sig += '|' + '|'.join(f'{k}={facts[k]}' for k in sorted(facts))
    return {'clause': clause, 'sig': sig, 'detail': str(detail)[:2000], 'facts': facts}


def exc_sig(exc):
    """Type of an exception plus innermost frame inside the code under test."""
    tb = traceback.extract_tb(exc.__traceback__)
    where = '?'
    for fr in reversed(tb):
        if '/mido/' in fr.filename:
            where = '%s:%s' % (fr.filename.split('/mido/', 1)[1], fr.name)
            break
    return f'{type(exc).__name__}@{where}'


def from_mido(exc):
    tb = traceback.extract_tb(exc.__traceback__)
    return any('/mido/' in fr.filename and '/verif/' not in fr.filename for fr in tb)


def jdefault(o):
    if isinstance(o, (bytes, bytearray)):
        return {'__bytes__': list(o)}
    if isinstance(o, (set, frozenset)):
        return sorted(o)
    if isinstance(o, tuple):
        return list(o)
    return repr(o)


def canon(case):
    return json.dumps(case, sort_keys=True, default=jdefault)


def say(*parts):
    """The driver's own output: never fails on a stdout that cannot encode a character (the variant run uses ASCII)."""
    text = ' '.join(str(p) for p in parts) + '\n'
    enc = getattr(sys.stdout, 'encoding', None) or 'utf-8'
    try:
        sys.stdout.write(text.encode(enc, 'backslashreplace').decode(enc))
    except Exception:  # noqa: BLE001
        sys.stdout.write(text.encode('ascii', 'backslashreplace').decode('ascii'))


def _small(case, limit=6000):
    """Samples in the evidence file are for reading: volume cases (megabytes of JSON) are counted, not shown."""
    try:
        return len(json.dumps(case, default=jdefault)) <= limit
    except Exception:  # noqa: BLE001
        return False


def fingerprint(case):
    return hashlib.blake2b(canon(case).encode(), digest_size=8).digest()


# kf_id -> matcher, filled by run_check for findings whose repro still fails
ACTIVE_KNOWN = {}


class Recorder:
    """Counting part shared by the main context and pool workers."""

    def __init__(self, mod):
        self.mod = mod
        self.evals = 0
        self.nt = set()
        self.nt_enum = 0
        self.classes = Counter()
        self.samples = []
        self.nt_samples = []
        self.violations = []          # (case, [failure, ...])
        self.excluded = Counter()     # kf_id -> number of cases whose failure matched a known finding
        self._pending = None
        self.max_violations = 20
        self.tier = 'quick'
        self.seed = 1
        # the variant (child) run repeats the check at about a tenth of the budget
        self.reduced = bool(os.environ.get('VERIF_CHILD'))

    def execute(self, case):
        # A single case works on tiny inputs and takes micro- to milliseconds (the largest, a one-million-byte text,
        # under five seconds).  If the code under test loops forever without ever sleeping, nothing else would notice:
        # a per-case alarm of CASE_TIMEOUT seconds turns that into a reported failure instead of a hung check.
        use_alarm = (hasattr(signal, 'SIGALRM') and threading.current_thread() is threading.main_thread()
                     and getattr(self.mod, 'CASE_TIMEOUT', 300) > 0)
        if use_alarm:
            def on_alarm(signum, frame):
                raise CaseTimeout()
            old = signal.signal(signal.SIGALRM, on_alarm)
            signal.alarm(getattr(self.mod, 'CASE_TIMEOUT', 300))
        try:
            return self._execute(case)
        except CaseTimeout:
            return [fail('no-termination', f'one case did not finish within {getattr(self.mod, "CASE_TIMEOUT", 300)} s '
                                           f'(normal: milliseconds): {canon(case)[:300]}')]
        finally:
            if use_alarm:
                signal.alarm(0)
                signal.signal(signal.SIGALRM, old)

    def _execute(self, case):
        try:
            return list(self.mod.run_case(case))
        except Violation:
            raise
        except HarnessError:
            raise
        except CaseTimeout:
            raise
        except BaseException as exc:  # noqa: BLE001
            if isinstance(exc, (KeyboardInterrupt, SystemExit)):
                raise
            if from_mido(exc):
                return [fail('unexpected-exception', ''.join(traceback.format_exception(exc))[-1500:],
                             exc=exc_sig(exc))]
            raise HarnessError('run_case raised outside mido: %r\ncase=%s\n%s' % (
                exc, canon(case)[:500], ''.join(traceback.format_exception(exc)))) from exc

    def run(self, case, nontrivial=None, classes=(), distinct=False, sample=True, failures=None):
        """Execute one case; returns the list of failures not covered by a known finding.
        `failures` may carry the result of an execution the caller has already done."""
        if failures is None:
            failures = self.execute(case)
        self.evals += 1
        if nontrivial is None:
            ntf = getattr(self.mod, 'nontrivial', None)
            nontrivial = bool(ntf(case)) if ntf else False
        if nontrivial:
            if distinct:
                self.nt_enum += 1
            else:
                self.nt.add(fingerprint(case))
            if len(self.nt_samples) < 4 and _small(case):
                self.nt_samples.append(case)
        for c in classes:
            self.classes[c] += 1
        if sample and len(self.samples) < 3 and _small(case):
            self.samples.append(case)
        unknown = []
        for f in failures:
            kf = None
            for kid, matcher in ACTIVE_KNOWN.items():
                try:
                    if matcher(case, f):
                        kf = kid
                        break
                except Exception:  # noqa: BLE001
                    pass
            if kf:
                self.excluded[kf] += 1
            else:
                unknown.append(f)
        if unknown:
            self._pending = (case, unknown)
        return unknown

    def run_tagged(self, case, **kw):
        """Like run(), for modules whose run_case leaves a set of situation tags in mod.LAST_TAGS: the tags become
        class counters in the evidence (the distribution the generator actually produced)."""
        fs = self.execute(case)
        tags = tuple(sorted(getattr(self.mod, 'LAST_TAGS', ()) or ()))
        return self.run(case, failures=fs, classes=tags + tuple(kw.pop('classes', ())), **kw)

    def check_tagged(self, case, **kw):
        """run_tagged() + record a violation immediately (enumerations)."""
        unknown = self.run_tagged(case, **kw)
        if unknown:
            self.note_violation(case, unknown)
        return unknown

    def keep(self, i, every=16):
        """Enumeration thinning for the variant run: every case normally, every `every`-th there."""
        return (not self.reduced) or i % every == 0

    def note_violation(self, case, failures):
        sigs = {f['sig'] for f in failures}
        for c, fs in self.violations:
            if {f['sig'] for f in fs} == sigs and len(canon(c)) <= len(canon(case)):
                return
        if len(self.violations) < self.max_violations:
            self.violations.append((case, failures))

    def check(self, case, **kw):
        """run() + record a violation immediately (for enumerations / non-shrinking drivers)."""
        unknown = self.run(case, **kw)
        if unknown:
            self.note_violation(case, unknown)
        return unknown

    def hyp(self, strategy, max_examples, body=None, label='', shrink=True, seed_offset=0):
        """Drive `body(drawn)` (default: self.run(case)) with Hypothesis; shrink the first unknown failure."""
        import hypothesis
        from hypothesis import HealthCheck, Phase, given, settings
        rec = self
        rec._pending = None
        if self.reduced:
            max_examples = max(5, max_examples // 10)
        phases = [Phase.explicit, Phase.generate, Phase.target]
        if shrink:
            phases.append(Phase.shrink)

        def default_body(case):
            return rec.run(case)
        fn = body or default_body

        @hypothesis.seed(self.seed * 1000 + seed_offset)
        @settings(max_examples=max_examples, database=None, deadline=None, report_multiple_bugs=False,
                  phases=phases, suppress_health_check=[HealthCheck.too_slow, HealthCheck.data_too_large,
                                                        HealthCheck.large_base_example],
                  print_blob=False)
        @given(strategy)
        def test(drawn):
            unknown = fn(drawn)
            if unknown:
                raise Violation(unknown[0]['sig'])

        try:
            test()
        except Violation:
            case, fs = rec._pending
            rec.note_violation(case, fs)
        except hypothesis.errors.FailedHealthCheck as exc:
            raise HarnessError(f'hypothesis health check in {label}: {exc}') from exc
        except hypothesis.errors.Flaky as exc:
            # the case failed, then passed on replay: report what was seen, it is reproducible from the case or not
            if rec._pending:
                case, fs = rec._pending
                rec.note_violation(case, fs + [fail('flaky', str(exc)[:300])])
            else:
                raise HarnessError(f'flaky in {label}: {exc}') from exc

    def machine(self, machine_cls, max_examples, steps, label='', seed_offset=0):
        """Run a RuleBasedStateMachine; the machine calls ctx.run(case) itself (usually in teardown/invariant)."""
        import hypothesis
        from hypothesis import HealthCheck, settings
        from hypothesis.stateful import run_state_machine_as_test
        self._pending = None
        if self.reduced:
            max_examples = max(5, max_examples // 10)
        st = settings(max_examples=max_examples, stateful_step_count=steps, database=None, deadline=None,
                      report_multiple_bugs=False, print_blob=False,
                      suppress_health_check=[HealthCheck.too_slow, HealthCheck.data_too_large,
                                             HealthCheck.large_base_example, HealthCheck.filter_too_much])
        import contextlib
        import io
        buf = io.StringIO()
        try:
            with contextlib.redirect_stdout(buf):
                run_state_machine_as_test(hypothesis.seed(self.seed * 1000 + seed_offset)(machine_cls), settings=st)
        except Violation:
            case, fs = self._pending
            self.note_violation(case, fs)
        except hypothesis.errors.FailedHealthCheck as exc:
            raise HarnessError(f'hypothesis health check in {label}: {exc}') from exc
        except hypothesis.errors.Flaky as exc:
            if self._pending:
                case, fs = self._pending
                self.note_violation(case, fs + [fail('flaky', str(exc)[:300])])
            else:
                raise HarnessError(f'flaky in {label}: {exc}') from exc

    def export(self):
        from lib import cover
        return {'evals': self.evals, 'nt': self.nt, 'nt_enum': self.nt_enum, 'classes': self.classes,
                'samples': self.samples, 'nt_samples': self.nt_samples, 'violations': self.violations,
                'excluded': self.excluded, 'cover': set(cover.HITS) if cover.ENABLED[0] else None}

    def absorb(self, d):
        self.evals += d['evals']
        self.nt |= d['nt']
        self.nt_enum += d['nt_enum']
        self.classes.update(d['classes'])
        self.excluded.update(d['excluded'])
        for s in d['samples']:
            if len(self.samples) < 6:
                self.samples.append(s)
        for s in d['nt_samples']:
            if len(self.nt_samples) < 6:
                self.nt_samples.append(s)
        for c, fs in d['violations']:
            self.note_violation(c, fs)
        if d.get('cover'):
            from lib import cover
            cover.HITS |= d['cover']


_WORKER = {}


def _pool_entry(arg):
    modname, fname, shard, tier, seed = arg
    import importlib
    mod = importlib.import_module(modname)
    rec = Recorder(mod)
    rec.tier = tier
    rec.seed = seed
    getattr(mod, fname)(rec, shard)
    return rec.export()


class Ctx(Recorder):
    def __init__(self, mod, tier, seed):
        super().__init__(mod)
        self.pid = mod.PID
        self.tier = tier
        self.seed = seed
        self.t0 = time.time()
        self.notes = []
        self.exhaustive = None
        self.extra = {}
        self.known_lines = []

    # ---- drivers -------------------------------------------------------------------------------
    def pmap(self, fname, shards):
        """Run mod.<fname>(recorder, shard) for each shard on a process pool and merge the counts."""
        args = [(self.mod.__name__, fname, s, self.tier, self.seed) for s in shards]
        if NPROC <= 1 or len(args) <= 1:
            for a in args:
                self.absorb(_pool_entry(a))
            return
        ctx = multiprocessing.get_context('fork')
        with ctx.Pool(min(NPROC, len(args))) as pool:
            for d in pool.imap_unordered(_pool_entry, args):
                self.absorb(d)

    def scale(self, n, floor=1):
        """Budget of a generated block: the variant (child) run uses a tenth."""
        return max(floor, n // 10) if self.reduced else n

    def elapsed(self):
        return time.time() - self.t0

    # ---- output --------------------------------------------------------------------------------
    def finish(self):
        mod = self.mod
        os.makedirs(os.path.join(VERIF, 'evidence', 'replays'), exist_ok=True)
        lines = []
        for case, fs in self.violations:
            h = hashlib.blake2b(canon(case).encode(), digest_size=6).hexdigest()
            rel = os.path.join('evidence', 'replays', f'{self.pid}-{h}.json')
            with open(os.path.join(VERIF, rel), 'w') as f:
                json.dump({'property': self.pid, 'case': case, 'failures': fs}, f, indent=1, default=jdefault)
            lines.append((rel, fs))
        nt = len(self.nt) + self.nt_enum
        samples = (self.nt_samples[:4] + self.samples[:2]) or self.samples
        cov = {
            'evaluations': self.evals,
            'distinct_nontrivial': nt,
            'rule': mod.RULE,
            'samples': json.loads(json.dumps(samples[:6], default=jdefault)),
            'classes': dict(self.classes),
            'excluded_known_findings': dict(self.excluded),
            'notes': self.notes,
        }
        if self.exhaustive is not None:
            cov['exhaustive'] = bool(self.exhaustive)
        cov.update(self.extra)
        ev = {
            'property_id': self.pid,
            'tier': self.tier,
            'seed': self.seed,
            'level': mod.LEVEL,
            'coverage': cov,
            'assumptions': list(getattr(mod, 'ASSUMPTIONS', [])),
            'wall_s': round(self.elapsed(), 3),
            'violations': len(self.violations),
        }
        name = f'{self.pid}.json' if not os.environ.get('VERIF_CHILD') else os.path.join('replays', f'{self.pid}.variant.json')
        with open(os.path.join(VERIF, 'evidence', name), 'w') as f:
            json.dump(ev, f, indent=1, default=jdefault)
        for ln in self.known_lines:
            say(ln)
        say(f'[{self.pid}] tier={self.tier} seed={self.seed} evaluations={self.evals} '
              f'distinct_nontrivial={nt} violations={len(self.violations)} wall={self.elapsed():.1f}s')
        for rel, fs in lines:
            for f in fs[:3]:
                say(f'  failure clause={f["clause"]} sig={f["sig"]}: {f["detail"][:300]}')
            say(f'VIOLATION property={self.pid} replay={rel}')
        sys.stdout.flush()
        return 1 if lines else 0


def run_fuzz(ctx, pid, runs, seeds, max_len=256, label='fuzz', timeout=3600, tokens=()):
    """Run the atheris target for `pid` twice in parallel - from an empty corpus and from `seeds` (list of bytes) - with
    a fixed number of runs and a fixed libFuzzer seed; merge the execution counts; report a violation if one stopped."""
    import re
    import shutil
    import subprocess
    import tempfile
    try:
        import atheris  # noqa: F401
    except ImportError:
        # MANIFEST.setup_cmd installs atheris into /verif/.deps; without it the campaign is skipped and said so
        ctx.notes.append(f'{label}: atheris is not importable (setup_cmd not run?) - coverage-guided campaign skipped')
        ctx.extra[f'{label}_skipped'] = 'atheris not installed'
        return 0
    tmp = tempfile.mkdtemp(prefix='mido_fuzz_')
    procs = []
    try:
        dict_path = os.path.join(tmp, 'tokens.dict')
        with open(dict_path, 'w') as f:
            for tok in tokens:
                f.write('"' + ''.join(c if (32 <= ord(c) < 127 and c not in '"\\') else '\\x%02x' % ord(c) for c in tok) + '"\n')
        for name, corpus in (('empty', []), ('seeded', seeds)):
            cdir = os.path.join(tmp, name)
            os.makedirs(cdir)
            for i, b in enumerate(corpus):
                with open(os.path.join(cdir, f'seed{i}'), 'wb') as f:
                    f.write(bytes(b))
            out = os.path.join(tmp, name + '.json')
            cmd = [sys.executable, '-B', os.path.join(VERIF, 'fuzz', 'target.py'), pid, out, f'-runs={runs}',
                   f'-seed={ctx.seed * 7919 + len(corpus) + 1}', f'-max_len={max_len}',
                   f'-artifact_prefix={tmp}/', '-print_final_stats=1'] + ([f'-dict={dict_path}'] if tokens else []) + [cdir]
            procs.append((name, out, subprocess.Popen(cmd, stdout=subprocess.PIPE, stderr=subprocess.STDOUT, text=True,
                                                      cwd=VERIF)))
        total = 0
        for name, out, p in procs:
            try:
                text, _ = p.communicate(timeout=timeout)
            except subprocess.TimeoutExpired:
                p.kill()
                text, _ = p.communicate()
                ctx.notes.append(f'{label}/{name}: wall-clock budget reached (inconclusive, not a violation)')
            m = re.findall(r'stat::number_of_executed_units:\s*(\d+)', text) or re.findall(r'Done (\d+) runs', text)
            n = int(m[-1]) if m else 0
            total += n
            ctx.classes[f'{label}-{name}-executions'] += n
            cov = re.findall(r'cov: (\d+)', text)
            if cov:
                ctx.extra[f'{label}_{name}_edges'] = int(cov[-1])
            if os.path.exists(out):
                data = json.load(open(out))
                if 'harness_error' in data:
                    raise HarnessError(f'fuzz target: {data["harness_error"]}')
                ctx.note_violation(data['case'], data['failures'])
            elif p.returncode not in (0, None) and 'Done' not in text and not m:
                raise HarnessError(f'fuzz target {name} failed to run: {text[-800:]}')
        ctx.evals += total
        return total
    finally:
        shutil.rmtree(tmp, ignore_errors=True)
