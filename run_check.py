"""./check <ID> [--tier quick|thorough] [--replay <file>]"""
import argparse
import glob
import importlib
import json
import os
import sys
import traceback

HERE = os.path.dirname(os.path.abspath(__file__))
sys.path.insert(0, HERE)

from lib import harness  # noqa: E402

MODULES = {
    'C01': 'checks.c01_codec', 'C02': 'checks.c02_from_bytes', 'C03': 'checks.c03_valid_state',
    'C04': 'checks.c04_parser_sound', 'C05': 'checks.c05_chunking', 'C06': 'checks.c06_resync',
    'C07': 'checks.c07_file_roundtrip', 'C08': 'checks.c08_smf_conformance', 'C09': 'checks.c09_meta_codec',
    'C10': 'checks.c10_concurrency', 'C11': 'checks.c11_lifecycle', 'C12': 'checks.c12_merge',
    'C13': 'checks.c13_timing', 'C14': 'checks.c14_text', 'C15': 'checks.c15_copy_freeze',
    'C16': 'checks.c16_midifile_state', 'C17': 'checks.c17_charset', 'C18': 'checks.c18_sockets',
    'C19': 'checks.c19_syx', 'C20': 'checks.c20_backend',
}


def load_known(pid):
    path = os.path.join(HERE, 'known_findings.json')
    if not os.path.exists(path):
        return []
    with open(path) as f:
        data = json.load(f)
    return [k for k in data.get('known', []) if k['property'] == pid]


def main():
    ap = argparse.ArgumentParser()
    ap.add_argument('pid')
    ap.add_argument('--tier', default=os.environ.get('VERIF_TIER', 'quick'), choices=['quick', 'thorough'])
    ap.add_argument('--replay')
    args = ap.parse_args()
    seed = int(os.environ.get('VERIF_SEED', '1') or 1)
    pid = args.pid.upper()

    if os.environ.get('VERIF_CHILD'):
        # the variant run is also a process without a standard input (a daemon, a service): descriptor 0 is free and the
        # next file or socket that is opened gets it
        try:
            os.close(0)
        except OSError:
            pass
    if os.environ.get('VERIF_WERROR'):
        import warnings
        # a process that treats warnings as errors (python -W error, CI settings): whatever mido warns about raises.
        # Warnings attributed to the verification code itself or to Hypothesis stay silent.
        warnings.simplefilter('ignore')
        warnings.filterwarnings('error', module=r'mido(\.|$)')
        warnings.filterwarnings('error', category=ResourceWarning)
        warnings.filterwarnings('error', category=DeprecationWarning, module=r'mido(\.|$)')
    if os.environ.get('VERIF_COVER'):
        from lib import cover
        cover.start(os.path.join(harness.REPO, 'mido'))
    import mido
    repo = os.path.realpath(harness.REPO)
    if not os.path.realpath(mido.__file__).startswith(repo + os.sep):
        harness.say(f'harness error: mido imported from {mido.__file__}, expected under {repo}')
        return 2

    mod = importlib.import_module(MODULES[pid])
    ctx = harness.Ctx(mod, args.tier, seed)

    # recorded findings: run each repro; while it still fails, announce it and exclude its class
    matchers = getattr(mod, 'KNOWN', {})
    for k in load_known(pid):
        kid = k['id']
        matcher = matchers.get(kid)
        if matcher is None:
            raise harness.HarnessError(f'no matcher for known finding {kid}')
        fs = ctx.execute(k['repro'])
        if any(matcher(k['repro'], f) for f in fs):
            ctx.known_lines.append(f'KNOWN-FINDING: property={pid} {kid} {k["what"]}')
            harness.ACTIVE_KNOWN[kid] = matcher

    if args.replay:
        with open(args.replay) as f:
            data = json.load(f)
        case = data['case'] if 'case' in data and 'property' in data else data
        if isinstance(case, dict) and case.get('_interpreter') and not os.environ.get('VERIF_CHILD'):
            # found by the variant run: replay it under the same interpreter settings
            import subprocess
            env = dict(os.environ, VERIF_CHILD='1', VERIF_WERROR='1', PYTHONIOENCODING='ascii', **VARIANT_ENV)
            env.pop('PYTHONWARNINGS', None)
            p = subprocess.run([sys.executable, '-B', '-O', '-bb', os.path.join(HERE, 'run_check.py'), pid, '--replay',
                                args.replay], env=env, cwd=HERE)
            return p.returncode
        if isinstance(case, dict):
            case = {k: v for k, v in case.items() if k != '_interpreter'}
        unknown = ctx.check(case, sample=True)
        for fl in unknown:
            harness.say(f'  failure clause={fl["clause"]} sig={fl["sig"]}: {fl["detail"][:1500]}')
        for ln in ctx.known_lines:
            harness.say(ln)
        if unknown:
            harness.say(f'VIOLATION property={pid} replay={args.replay}')
            return 1
        harness.say(f'[{pid}] replay passed')
        return 0

    # committed regressions (shrunk cases of repaired defects and of earlier misses) run first
    for path in sorted(glob.glob(os.path.join(HERE, 'regressions', pid, '*.json'))):
        with open(path) as f:
            data = json.load(f)
        case = data['case'] if 'case' in data and 'property' in data else data
        ctx.check(case, classes=('regression',), sample=False)

    ctx.reduced = bool(os.environ.get('VERIF_CHILD'))
    mod.main(ctx)
    if not os.environ.get('VERIF_CHILD') and not os.environ.get('VERIF_NO_CHILD') and not (
            os.environ.get('VERIF_AUDIT') and ctx.violations):
        # (sensitivity audits only need the first verdict: they skip the variant run once the main run has failed)
        run_variant(ctx, pid, args.tier, seed)
    if os.environ.get('VERIF_COVER'):
        from lib import cover
        os.makedirs(os.environ['VERIF_COVER'], exist_ok=True)
        cover.dump(os.path.join(os.environ['VERIF_COVER'], pid + ('.child' if os.environ.get('VERIF_CHILD') else '') + '.json'))
    return ctx.finish()


# The child also lives in a different process environment: another (fixed) string-hash seed, the plain C locale without
# UTF-8 coercion, a far-away time zone, and an empty scratch directory as its working directory.
VARIANT_ENV = {'PYTHONHASHSEED': '4242', 'LC_ALL': 'C', 'LANG': 'C', 'PYTHONCOERCECLOCALE': '0', 'PYTHONUTF8': '0',
               'TZ': 'Pacific/Kiritimati'}


def run_variant(ctx, pid, tier, seed):
    """The same check once more, reduced, in a child interpreter started the way some deployments start Python:
    optimised (-O: asserts and __debug__ blocks are stripped), with bytes/str confusion as an error (-bb), with warnings
    raised from mido modules turned into errors, and with an ASCII-only stdout.  A property must not depend on these."""
    import json as _json
    import re
    import subprocess
    import shutil
    import tempfile
    env = dict(os.environ, VERIF_CHILD='1', VERIF_WERROR='1', PYTHONIOENCODING='ascii', VERIF_SEED=str(seed), **VARIANT_ENV)
    env.pop('PYTHONWARNINGS', None)
    cmd = [sys.executable, '-B', '-O', '-bb', os.path.join(HERE, 'run_check.py'), pid, '--tier', 'quick']
    elsewhere = tempfile.mkdtemp(prefix='verif_variant_cwd_')
    try:
        p = subprocess.run(cmd, capture_output=True, text=True, env=env, cwd=elsewhere, timeout=3600)
    except subprocess.TimeoutExpired:
        ctx.notes.append('variant run (python -O -bb, warnings as errors): wall-clock budget reached - inconclusive')
        return
    finally:
        shutil.rmtree(elsewhere, ignore_errors=True)
    out = p.stdout + p.stderr
    m = re.search(r'evaluations=(\d+) distinct_nontrivial=(\d+)', out)
    if m:
        ctx.classes['variant-run(-O -bb -Werror ascii-stdout)-evaluations'] += int(m.group(1))
        ctx.evals += int(m.group(1))
    if p.returncode == 1:
        for rel in re.findall(r'VIOLATION property=\S+ replay=(\S+)', out):
            try:
                data = _json.load(open(os.path.join(HERE, rel)))
                case = dict(data['case']) if isinstance(data['case'], dict) else {'case': data['case']}
                case['_interpreter'] = 'python -O -bb, mido warnings as errors, ascii stdout'
                fs = [dict(f, sig=f['sig'] + '|variant') for f in data['failures']]
                ctx.note_violation(case, fs)
            except Exception:  # noqa: BLE001
                pass
    elif p.returncode != 0:
        raise harness.HarnessError('variant run failed: ' + out[-1500:])


if __name__ == '__main__':
    try:
        rc = main()
    except harness.HarnessError as exc:
        harness.say('harness error:', exc)
        rc = 2
    except SystemExit:
        raise
    except BaseException:  # noqa: BLE001
        traceback.print_exc()
        harness.say('harness error: unexpected exception in the driver')
        rc = 2
    sys.stdout.flush()
    sys.stderr.flush()
    os._exit(rc)
