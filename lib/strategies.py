"""Hypothesis strategies producing JSON-friendly case material (dicts/lists), built by construction."""
from hypothesis import strategies as st

from . import refmidi as R

EDGE7 = [0, 1, 0x3F, 0x40, 0x7E, 0x7F]
EDGE = {
    'channel': [0, 1, 7, 8, 14, 15],
    'frame_type': [0, 1, 3, 4, 7],
    'frame_value': [0, 1, 7, 8, 15],
    'pitch': [-8192, -8191, -129, -128, -127, -1, 0, 1, 127, 128, 129, 8190, 8191],
    'pos': [0, 1, 127, 128, 129, 255, 256, 16382, 16383],
}


def attr_value(name):
    lo, hi = R.RANGES[name]
    edges = EDGE.get(name, EDGE7)
    return st.one_of(st.sampled_from(edges), st.integers(lo, hi))


def sysex_payload(max_size=300):
    sizes = st.one_of(st.sampled_from([0, 1, 2, 3, 126, 127, 128, 129]), st.integers(0, max_size))
    return sizes.flatmap(lambda n: st.lists(st.one_of(st.sampled_from(EDGE7), st.integers(0, 127)),
                                            min_size=n, max_size=n))


def times():
    return st.one_of(
        st.sampled_from([0, 1, -1, 127, 128, 2 ** 31, 2 ** 63, 2 ** 64 + 1, -2 ** 70, 0.0, -0.0, 0.5, 1.0, -1.5,
                         1e-300, 5e-324, 1.7976931348623157e308, 1e22, 0.1, 123456.789]),
        st.integers(-2 ** 40, 2 ** 40),
        st.floats(allow_nan=False, allow_infinity=False),
    )


def small_times():
    return st.one_of(st.sampled_from([0, 0, 1, 2, 10, 480]), st.integers(0, 1000))


def msg_dict(types=None, time=None, max_sysex=300):
    """A valid message as a reference dict."""
    types = list(types or R.ALL_TYPES)
    time = time if time is not None else times()

    def build(t):
        fields = {n: (sysex_payload(max_sysex) if n == 'data' else attr_value(n)) for n in R.attr_names(t)}
        return st.fixed_dictionaries({'type': st.just(t), **fields, 'time': time})
    return st.sampled_from(types).flatmap(build)


NON_REALTIME = [t for t in R.ALL_TYPES if t not in R.REALTIME]

# one representative per byte class (see DESIGN C04)
CLASS_ALPHABET = [0x00, 0x7F, 0x90, 0xC5, 0xE3, 0xF0, 0xF1, 0xF2, 0xF4, 0xF6, 0xF7, 0xF8, 0xF9, 0xFF]
STATUS_REPS = [0x80, 0x9F, 0xA3, 0xB0, 0xC5, 0xD1, 0xE3, 0xF0, 0xF1, 0xF2, 0xF3, 0xF4, 0xF5, 0xF6, 0xF7, 0xF8, 0xF9,
               0xFA, 0xFB, 0xFC, 0xFD, 0xFE, 0xFF]


def byte_stream(max_chunks=30):
    """Byte streams mixing valid encodings, cut-short encodings, class-alphabet bytes and arbitrary bytes."""
    enc = msg_dict(time=st.just(0), max_sysex=12).map(R.ref_encode)
    cut = enc.flatmap(lambda e: st.integers(0, len(e)).map(lambda k: e[:k]))
    junk = st.lists(st.one_of(st.sampled_from(CLASS_ALPHABET), st.sampled_from(STATUS_REPS), st.integers(0, 255)),
                    min_size=1, max_size=4)
    piece = st.one_of(enc, enc, cut, junk)
    return st.lists(piece, max_size=max_chunks).map(lambda ps: [b for p in ps for b in p])
