"""Independent Standard MIDI File reference: encoder with encoding choices, strict decoder, track algebra.

Events are message dicts (see refmidi / refmeta) whose 'time' is the delta in ticks.
"""
import struct

from . import refmeta as M
from . import refmidi as R


def padded_vlq(n, pad=0):
    v = M.vlq(n)
    pad = max(0, min(pad, 4 - len(v)))
    return [0x80] * pad + v


def event_bytes(d, charset='latin1'):
    """(kind, body) of one event, without delta: kind in 'midi' | 'sysex' | 'meta'."""
    if M.is_meta(d):
        return 'meta', M.encode(d, charset)
    if d['type'] == 'sysex':
        return 'sysex', [0xF0] + M.vlq(len(d['data']) + 1) + [int(b) for b in d['data']] + [0xF7]
    return 'midi', R.ref_encode(d)


def encode_track(track, choices=None, charset='latin1'):
    """choices: list parallel to track of [use_running_status, delta_pad, length_pad]."""
    out = []
    running = None
    used_rs = 0
    for i, d in enumerate(track):
        ch = choices[i] if choices and i < len(choices) else [False, 0, 0]
        out += padded_vlq(d['time'], ch[1])
        if M.is_meta(d):
            p = M.payload(d, charset)
            out += [0xFF, M.type_byte(d)] + padded_vlq(len(p), ch[2]) + p
            running = None
        elif d['type'] == 'sysex':
            out += [0xF0] + padded_vlq(len(d['data']) + 1, ch[2]) + [int(b) for b in d['data']] + [0xF7]
            running = None
        else:
            b = R.ref_encode(d)
            if b[0] < 0xF0:
                if ch[0] and running == b[0]:
                    out += b[1:]
                    used_rs += 1
                else:
                    out += b
                running = b[0]
            else:
                out += b
                running = None
    return out, used_rs


def encode_file(fmt, division, tracks, choices=None, charset='latin1'):
    """choices = {'header_extra': n, 'ev': [per-track list of [rs, dpad, lpad]]}"""
    choices = choices or {}
    extra = choices.get('header_extra', 0)
    out = list(b'MThd') + list(struct.pack('>I', 6 + extra)) + list(struct.pack('>HHH', fmt, len(tracks), division))
    out += [0] * extra
    used = 0
    for ti, tr in enumerate(tracks):
        evch = (choices.get('ev') or [None] * len(tracks))[ti] if choices.get('ev') else None
        body, u = encode_track(tr, evch, charset)
        used += u
        out += list(b'MTrk') + list(struct.pack('>I', len(body))) + body
    return bytes(out), used


class SMFError(Exception):
    pass


def _read_vlq(b, i, flags, what):
    n = 0
    start = i
    while True:
        if i >= len(b):
            raise SMFError('EOF in ' + what)
        c = b[i]
        i += 1
        n = n * 128 + (c & 0x7F)
        if c < 0x80:
            break
        if i - start >= 4:
            flags.append(f'vlq-too-long:{what}')
    if i - start > 1 and b[start] == 0x80:
        flags.append(f'vlq-not-minimal:{what}')
    return n, i


def strict_decode(data):
    """Decode SMF bytes.  Returns (header, tracks, flags): header = (format, ntrks, division, header_len);
    tracks = list of lists of (kind, delta, info) with kind 'midi' (info = full message bytes), 'sysex'
    (info = payload without F0/F7) or 'meta' (info = (type, payload)); flags = conformance problems found."""
    b = bytes(data)
    flags = []
    if b[:4] != b'MThd':
        raise SMFError('no MThd')
    if len(b) < 14:
        raise SMFError('short header')
    hlen = struct.unpack('>I', b[4:8])[0]
    if hlen < 6:
        raise SMFError('header length < 6')
    fmt, ntrks, div = struct.unpack('>HHH', b[8:14])
    if hlen != 6:
        flags.append('header-length-not-6')
    i = 8 + hlen
    tracks = []
    while i < len(b):
        if b[i:i + 4] != b'MTrk':
            flags.append('non-MTrk-chunk')
            raise SMFError(f'unknown chunk at {i}')
        if i + 8 > len(b):
            raise SMFError('truncated chunk header')
        tlen = struct.unpack('>I', b[i + 4:i + 8])[0]
        i += 8
        end = i + tlen
        if end > len(b):
            flags.append('chunk-length-beyond-file')
            raise SMFError('chunk length beyond end of file')
        evs = []
        running = None
        seen_eot = False
        while i < end:
            if seen_eot:
                flags.append('event-after-end-of-track')
            delta, i = _read_vlq(b, i, flags, 'delta')
            if i >= end:
                raise SMFError('EOF after delta')
            s = b[i]
            if s == 0xFF:
                if i + 1 >= end:
                    raise SMFError('EOF in meta')
                mtype = b[i + 1]
                ln, j = _read_vlq(b, i + 2, flags, 'meta-length')
                if j + ln > end:
                    flags.append('event-crosses-chunk-end')
                    raise SMFError('meta crosses chunk end')
                evs.append(('meta', delta, (mtype, list(b[j:j + ln]))))
                if mtype == 0x2F:
                    seen_eot = True
                    if ln != 0:
                        flags.append('end-of-track-with-payload')
                i = j + ln
                running = None
            elif s == 0xF0:
                ln, j = _read_vlq(b, i + 1, flags, 'sysex-length')
                if j + ln > end:
                    flags.append('event-crosses-chunk-end')
                    raise SMFError('sysex crosses chunk end')
                body = list(b[j:j + ln])
                if not body or body[-1] != 0xF7:
                    flags.append('sysex-not-terminated')
                else:
                    body = body[:-1]
                if any(x > 127 for x in body):
                    flags.append('sysex-data-above-127')
                evs.append(('sysex', delta, body))
                i = j + ln
                running = None
            elif s == 0xF7:
                flags.append('escape-event')
                raise SMFError('F7 escape event (not produced by the writer under test)')
            else:
                if s < 0x80:
                    if running is None:
                        flags.append('running-status-illegal')
                        raise SMFError('running status without a preceding channel message')
                    status = running
                    used = True
                else:
                    status = s
                    i += 1
                    used = False
                n = R.expected_data_len(status)
                if n is None or n < 0:
                    raise SMFError(f'undefined status {status:02X}')
                if status >= 0xF8:
                    flags.append('realtime-in-file')
                if i + n > end:
                    raise SMFError('EOF in message')
                body = list(b[i:i + n])
                if any(x > 127 for x in body):
                    flags.append('data-above-127')
                evs.append(('midi', delta, [status] + body) if not used else ('midi', delta, [status] + body))
                i += n
                running = status if status < 0xF0 else None
        if i != end:
            flags.append('chunk-length-mismatch')
        if not evs or evs[-1][0] != 'meta' or evs[-1][2][0] != 0x2F:
            flags.append('missing-final-end-of-track')
        tracks.append(evs)
    if len(tracks) != ntrks:
        flags.append(f'track-count {len(tracks)} != header {ntrks}')
    return (fmt, ntrks, div, hlen), tracks, flags


def expected_events(track, charset='latin1'):
    """Abstract events (same shape as strict_decode output) for a canonical list of message dicts."""
    out = []
    for d in track:
        if M.is_meta(d):
            out.append(('meta', d['time'], (M.type_byte(d), M.payload(d, charset))))
        elif d['type'] == 'sysex':
            out.append(('sysex', d['time'], [int(x) for x in d['data']]))
        else:
            out.append(('midi', d['time'], R.ref_encode(d)))
    return out


def canon_track(track):
    """R4: drop every end_of_track carrying its delta forward; append one end_of_track with the trailing delta."""
    out = []
    acc = 0
    for d in track:
        if d['type'] == 'end_of_track':
            acc += d['time']
        else:
            if acc:
                d = dict(d)
                d['time'] = d['time'] + acc
                acc = 0
            out.append(d)
    out.append({'type': 'end_of_track', 'time': acc})
    return out


def merge_model(tracks):
    """R4 merge: absolute tick, then track index, then position; end_of_track canonicalised afterwards."""
    items = []
    for ti, tr in enumerate(tracks):
        now = 0
        for pi, d in enumerate(tr):
            now += d['time']
            items.append((now, ti, pi, d))
    items.sort(key=lambda x: (x[0], x[1], x[2]))
    out = []
    prev = 0
    for now, _, _, d in items:
        e = dict(d)
        e['time'] = now - prev
        prev = now
        out.append(e)
    return canon_track(out)
