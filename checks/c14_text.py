"""C14 - text, dict and repr representations round-trip; parse errors are ValueError / (None, error)."""
import math
import re

from hypothesis import strategies as st

import mido
from mido.frozen import FrozenMessage, FrozenMetaMessage, FrozenUnknownMetaMessage, freeze_message

from lib import refmeta as M
from lib import refmidi as R
from lib import strategies as S
from lib.harness import exc_sig, fail

PID = 'C14'
LEVEL = 'exploration'
RULE = ('Hypothesis: messages of all 18 types x times (ints incl. negative and > 2**63, finite floats incl. subnormal / '
        'huge / -0.0), empty and long sysex data; meta messages (text with quotes, backslashes, newlines, non-ASCII), '
        'unknown meta, frozen variants; tracks of length 0, 1, 2, 5+ mixing the three classes; files with 0-3 tracks. '
        'Negative texts built by mutating a valid line (unknown type, no "=", empty / non-numeric / fractional value, '
        'duplicated attribute, attribute of another type, type=, out-of-range value, missing or unbalanced parentheses, '
        'empty / blank string); streams of valid, blank, comment, trailing-comment and invalid lines; arbitrary token soup '
        'for totality. Oracle: from_str(str(m))==m, from_dict(m.dict())==m, eval(repr(x))==x in a namespace holding only the '
        'mido classes; every negative text raises ValueError; arbitrary text gives a valid message or ValueError; '
        'parse_string_stream yields one item per non-blank non-comment line in order, (msg, None) or (None, text with '
        '"line <n>"), and never raises. Non-trivial = non-default attributes / an invalid line followed by a valid one; '
        'distinct by text.'
        ' Later additions: text streams as list / tuple / iterator / file object, include_time=False, option words'
        ' (skip_checks=1) as invalid, a MidiFile loaded by name then emptied in eval(repr()); parse_string again after'
        ' editing its first result; editing the result of dict() leaves the message alone.')
ASSUMPTIONS = ['lexical liberties of int()/float() (1_0, +5, unicode digits) and skip_checks= inside text are not judged',
               'NaN and infinite times are excluded (the statement says finite)']

NS = {'Message': mido.Message, 'MetaMessage': mido.MetaMessage, 'UnknownMetaMessage': mido.UnknownMetaMessage,
      'MidiTrack': mido.MidiTrack, 'MidiFile': mido.MidiFile, 'FrozenMessage': FrozenMessage,
      'FrozenMetaMessage': FrozenMetaMessage, 'FrozenUnknownMetaMessage': FrozenUnknownMetaMessage,
      '__builtins__': {}}


def _eq(a, b):
    return type(a) is type(b) and a == b


def check_msg(d, frozen=False):
    out = []
    t = d['type']
    try:
        m = M.to_mido(d)
        if frozen:
            m = freeze_message(m)
    except Exception as exc:  # noqa: BLE001
        return [fail('build-raises', f'{d}: {exc!r}', exc=exc_sig(exc))]
    if not M.is_meta(d):
        try:
            notime = mido.format_as_string(m, include_time=False)
            s = str(m)
            if s != f'{notime} time={m.time}' or ' time=' in notime:
                out.append(fail('format-include-time', f'{m!r}: include_time=False gives {notime!r}, str gives {s!r}', type=t))
            r = mido.Message.from_str(s)
            if not (r == m) or type(r) is not mido.Message or R.same_message(r, {**d, 'data': tuple(d['data'])}
                                                                             if 'data' in d else d):
                out.append(fail('str-roundtrip', f'{m!r} -> {s!r} -> {r!r}', type=t))
            r2 = mido.Message.from_str(s)
            if r2 is r:
                out.append(fail('str-shared', f'from_str returned the same object twice for {s!r}', type=t))
            else:
                r2.time = 5150
                if r.time == 5150 and m.time != 5150:
                    out.append(fail('str-shared', f'objects parsed from {s!r} share state', type=t))
            p1 = mido.parse_string(s)
            if p1 != m or mido.format_as_string(m) != s:
                out.append(fail('str-api', f'parse_string/format_as_string disagree for {m!r}', type=t))
            else:
                # what parse_string returned belongs to the caller (round 13: an lru_cache around it): the same text
                # parsed again after the first result was edited is the message the text describes
                p1.time = 6160
                p2 = mido.parse_string(s)
                if p2 is p1 or (p2 != m and m.time != 6160):
                    out.append(fail('str-shared', f'parse_string({s!r}) after editing the earlier result: {p2!r}', type=t))
        except Exception as exc:  # noqa: BLE001
            out.append(fail('str-roundtrip', f'{m!r}: {exc!r}', type=t, exc=exc_sig(exc)))
        try:
            dd = m.dict()
            r = mido.Message.from_dict(dd)
            if not (r == m):
                out.append(fail('dict-roundtrip', f'{m!r} -> {dd!r} -> {r!r}', type=t))
            if 'data' in dd and type(dd['data']) is not list:
                out.append(fail('dict-data-type', f'dict() data is {type(dd["data"]).__name__}', type=t))
            # the dict is a copy: editing it does not edit the message (round 13: dict() handing out vars(self))
            before = dict(vars(m))
            dd['time'] = 7170
            for k in list(dd):
                if k not in ('type', 'time'):
                    dd[k] = [99] if k == 'data' else 'scribble'
            if dict(vars(m)) != before:
                out.append(fail('dict-aliased', f'editing the result of dict() changed the message: {vars(m)!r}', type=t))
                vars(m).update(before)
        except Exception as exc:  # noqa: BLE001
            out.append(fail('dict-roundtrip', f'{m!r}: {exc!r}', type=t, exc=exc_sig(exc)))
    try:
        rp = repr(m)
        r = eval(rp, dict(NS))  # noqa: S307
        if not _eq(r, m):
            out.append(fail('repr-roundtrip', f'{rp!r} evaluates to {r!r}', type=t, frozen=str(frozen)))
    except Exception as exc:  # noqa: BLE001
        out.append(fail('repr-roundtrip', f'{m!r}: {exc!r}', type=t, exc=exc_sig(exc), frozen=str(frozen)))
    return out


def check_track(dicts):
    try:
        tr = mido.MidiTrack([M.to_mido(d) for d in dicts])
        rp = repr(tr)
        r = eval(rp, dict(NS))  # noqa: S307
    except Exception as exc:  # noqa: BLE001
        return [fail('track-repr', f'{len(dicts)} messages: {exc!r}', n=min(len(dicts), 3), exc=exc_sig(exc))]
    if type(r) is not mido.MidiTrack or len(r) != len(tr) or any(not _eq(a, b) for a, b in zip(r, tr)):
        return [fail('track-repr', f'{rp[:300]!r} evaluates to {r!r}'[:800], n=min(len(dicts), 3))]
    return []


def check_file(fd):
    try:
        mid = mido.MidiFile(type=fd['type'], ticks_per_beat=fd['tpb'],
                            tracks=[mido.MidiTrack([M.to_mido(d) for d in tr]) for tr in fd['tracks']])
        rp = repr(mid)
        r = eval(rp, dict(NS))  # noqa: S307
    except Exception as exc:  # noqa: BLE001
        return [fail('file-repr', f'{exc!r}', exc=exc_sig(exc))]
    if (type(r) is not mido.MidiFile or r.type != mid.type or r.ticks_per_beat != mid.ticks_per_beat
            or len(r.tracks) != len(mid.tracks)
            or any(type(a) is not mido.MidiTrack or len(a) != len(b) or any(not _eq(x, y) for x, y in zip(a, b))
                   for a, b in zip(r.tracks, mid.tracks))):
        return [fail('file-repr', f'{rp[:300]!r} does not evaluate to an equal file')]
    return []


def check_file_from_disk(fd):
    """repr of a MidiFile that was loaded by file name, also after its tracks were cleared / the file is gone."""
    import os
    import tempfile
    out = []
    with tempfile.TemporaryDirectory(prefix='c14_') as tmp:
        path = os.path.join(tmp, 'song.mid')
        mid = mido.MidiFile(type=fd['type'], ticks_per_beat=fd['tpb'],
                            tracks=[mido.MidiTrack([M.to_mido(d) for d in tr]) for tr in fd['tracks']])
        try:
            mid.save(path)
            loaded = mido.MidiFile(path)
        except Exception:  # noqa: BLE001
            return []
        variants = [('as loaded', loaded)]
        emptied = mido.MidiFile(path)
        emptied.tracks.clear()
        variants.append(('tracks cleared', emptied))
        fresh = mido.MidiFile(type=fd['type'], ticks_per_beat=fd['tpb'])
        fresh.filename = os.path.join(tmp, 'not-written-yet.mid')
        variants.append(('new file with a name', fresh))
        for what, m in variants:
            try:
                r = eval(repr(m), dict(NS))  # noqa: S307
                if (r.type, r.ticks_per_beat, len(r.tracks)) != (m.type, m.ticks_per_beat, len(m.tracks)) or any(
                        len(a) != len(b) or any(not _eq(x, y) for x, y in zip(a, b)) for a, b in zip(r.tracks, m.tracks)):
                    out.append(fail('file-repr', f'file from disk ({what}): repr does not evaluate to an equal file', what=what))
            except Exception as exc:  # noqa: BLE001
                out.append(fail('file-repr', f'file from disk ({what}): {exc!r}', what=what, exc=exc_sig(exc)))
    return out


def check_negative(text):
    try:
        r = mido.parse_string(text)
    except ValueError:
        return []
    except Exception as exc:  # noqa: BLE001
        return [fail('negative-wrong-exception', f'{text!r}: {exc!r}', exc=exc_sig(exc))]
    return [fail('negative-accepted', f'{text!r} -> {r!r}')]


def check_arbitrary(text):
    if 'skip_checks' in text:
        return []
    try:
        r = mido.parse_string(text)
    except ValueError:
        return []
    except Exception as exc:  # noqa: BLE001
        return [fail('arbitrary-wrong-exception', f'{text!r}: {exc!r}', exc=exc_sig(exc))]
    v = dict(vars(r))
    if isinstance(v.get('time'), float) and (math.isnan(v['time']) or math.isinf(v['time'])):
        v['time'] = 0
    why = R.ref_valid_vars(v)
    if type(r) is not mido.Message or why:
        return [fail('arbitrary-invalid-message', f'{text!r} -> {r!r}: {why}')]
    return []


def check_stream(lines, how='iter'):
    """lines: list of [kind, text, msgdict|None]; kind in valid / invalid / blank / comment."""
    texts = [ln[1] for ln in lines]
    try:
        import io
        joined = ''.join(t if t.endswith('\n') else t + '\n' for t in texts)
        if how == 'file' and all('\n' not in t.rstrip('\n') and '\r' not in t for t in texts):
            stream = io.StringIO(joined)           # a text file: lines keep their newline
        elif how == 'list':
            stream = list(texts)
        elif how == 'tuple':
            stream = tuple(texts)
        else:
            stream = iter(texts)
        got = list(mido.parse_string_stream(stream))
    except Exception as exc:  # noqa: BLE001
        return [fail('stream-raises', f'{texts!r}: {exc!r}', exc=exc_sig(exc))]
    want = [(i + 1, ln) for i, ln in enumerate(lines) if ln[0] in ('valid', 'invalid')]
    if len(got) != len(want):
        return [fail('stream-count', f'{len(got)} items for {len(want)} message lines: {texts!r} -> {got!r}')]
    out = []
    for (n, (kind, text, d)), item in zip(want, got):
        if not isinstance(item, tuple) or len(item) != 2:
            out.append(fail('stream-item', f'{item!r}'))
            break
        msg, err = item
        if kind == 'valid':
            if err is not None or msg is None or R.same_message(msg, {**d, 'data': tuple(d['data'])} if 'data' in d else d):
                out.append(fail('stream-valid-line', f'line {n} {text!r} -> {item!r}'))
                break
        else:
            if msg is not None or not isinstance(err, str) or not re.search(rf'\bline {n}\b', err):
                out.append(fail('stream-invalid-line', f'line {n} {text!r} -> {item!r} (texts {texts!r})'))
                break
    return out


def run_case(case):
    k = case['kind']
    if k == 'msg':
        return check_msg(case['msg'], case.get('frozen', False))
    if k == 'track':
        return check_track(case['msgs'])
    if k == 'file':
        return check_file(case['file']) + (check_file_from_disk(case['file']) if case.get('disk') else [])
    if k == 'neg':
        return check_negative(case['text'])
    if k == 'arbitrary':
        return check_arbitrary(case['text'])
    if k == 'stream':
        return check_stream(case['lines'], case.get('how', 'iter'))
    raise KeyError(k)


def nontrivial(case):
    k = case['kind']
    if k == 'msg':
        d = case['msg']
        if M.is_meta(d):
            return True
        return any(d[n] != R.DEFAULTS[n] and d[n] != [] for n in d if n not in ('type',))
    if k == 'track':
        return len(case['msgs']) >= 1
    if k == 'file':
        return any(case['file']['tracks'])
    if k == 'stream':
        kinds = [ln[0] for ln in case['lines']]
        return any(a == 'invalid' and 'valid' in kinds[i + 1:] for i, a in enumerate(kinds))
    return True


# ---- generators --------------------------------------------------------------------------------------------------

FINITE_TIMES = st.one_of(
    st.sampled_from([0, 1, -1, 127, 2 ** 31, 2 ** 53 + 1, 2 ** 63, 2 ** 64 + 1, -2 ** 70, 10 ** 17 + 1, 0.0, -0.0, 0.5, 1.0,
                     -1.5, 1e-300, 5e-324, 1.7976931348623157e308, 1e22, 0.1, 123456.789, 1e16]),
    st.integers(-2 ** 70, 2 ** 70), st.floats(allow_nan=False, allow_infinity=False))


def valid_line(d):
    """My own formatter for a valid message line (attribute order shuffled by the caller)."""
    words = [d['type']]
    for n in d:
        if n == 'type':
            continue
        v = d[n]
        if n == 'data':
            v = '(' + ','.join(str(b) for b in v) + ')'
        words.append(f'{n}={v!r}' if isinstance(v, float) else f'{n}={v}')
    return words


@st.composite
def negative_texts(draw):
    d = draw(S.msg_dict(time=st.sampled_from([0, 1, 0.5]), max_sysex=5))
    words = valid_line(d)
    t = d['type']
    names = [n for n in d if n not in ('type', 'time', 'data')]
    kind = draw(st.sampled_from(['unknown-type', 'no-eq', 'empty-val', 'non-numeric', 'fraction', 'dup', 'foreign',
                                 'type-eq', 'range', 'paren', 'blank', 'space-in-pair', 'dup-time', 'hex', 'option-word']))
    if kind == 'unknown-type':
        words[0] = draw(st.sampled_from(['note', 'noteon', 'NOTE_ON', 'foo', 'sysex_', '0', 'end_of_track', 'set_tempo']))
    elif kind == 'no-eq':
        words.insert(draw(st.integers(1, len(words))), draw(st.sampled_from(['note', '5', 'time', 'x', ')'])))
    elif kind == 'empty-val':
        n = draw(st.sampled_from(names + ['time']))
        words = [w for w in words if not w.startswith(n + '=')] + [f'{n}=']
    elif kind == 'non-numeric':
        n = draw(st.sampled_from(names + ['time']))
        words = [w for w in words if not w.startswith(n + '=')] + [f'{n}=' + draw(st.sampled_from(
            ['abc', '1x', 'None', '--1', '1e', '0x1g', '1,2', '(1)']))]
    elif kind == 'fraction':
        if not names:
            words[0] = 'foo'
        else:
            n = draw(st.sampled_from(names))
            words = [w for w in words if not w.startswith(n + '=')] + [f'{n}=' + draw(st.sampled_from(
                ['1.5', '1.0', '0.0', '1e1', '3.']))]
    elif kind in ('dup', 'dup-time'):
        cand = [w for w in words[1:] if (w.startswith('time=') if kind == 'dup-time' else True)]
        w = draw(st.sampled_from(cand))
        if draw(st.booleans()) and not w.startswith('data='):
            w = w.split('=')[0] + '=' + draw(st.sampled_from(['0', '1']))
        words.insert(draw(st.integers(1, len(words))), w)
    elif kind == 'foreign':
        other = [n for n in list(R.RANGES) + ['data'] if n not in d]
        n = draw(st.sampled_from(other))
        words.append(f'{n}=(1)' if n == 'data' else f'{n}=0')
    elif kind == 'option-word':
        # names of constructor OPTIONS are not attributes: a text cannot switch validation off
        words.insert(draw(st.integers(1, len(words))), draw(st.sampled_from(['skip_checks=1', 'skip_checks=0', 'skip_checks=2',
                                                                             'self=1', 'args=1', 'kwargs=1', 'cl=1'])))
        if names and draw(st.booleans()):
            n = draw(st.sampled_from(names))
            words = [w for w in words if not w.startswith(n + '=')] + [f'{n}={R.RANGES[n][1] + 1}']
    elif kind == 'type-eq':
        words.append('type=' + draw(st.sampled_from([t, 'note_off', '1', 'clock'])))
    elif kind == 'range':
        if not names:
            words[0] = 'foo'
        else:
            n = draw(st.sampled_from(names))
            lo, hi = R.RANGES[n]
            words = [w for w in words if not w.startswith(n + '=')] + [f'{n}={draw(st.sampled_from([lo - 1, hi + 1, 2 ** 70]))}']
    elif kind == 'paren':
        body = ','.join(str(b) for b in d.get('data', [1, 2]))
        bad = draw(st.sampled_from(['({}', '{})', '{}', '(({})', '({},)', '(,{})', '[{}]', '({};1)', '(1,128)', '(-1)',
                                    '(1.5)', '(a)']))
        words = ['sysex', 'data=' + bad.format(body or '1')]
    elif kind == 'blank':
        return {'kind': 'neg', 'text': draw(st.sampled_from(['', ' ', '\t', '\n', '   \n  ']))}
    elif kind == 'space-in-pair':
        n = draw(st.sampled_from(names + ['time']))
        words = [w for w in words if not w.startswith(n + '=')] + [f'{n}=', '5']
    elif kind == 'hex':
        if not names:
            words[0] = 'foo'
        else:
            n = draw(st.sampled_from(names))
            words = [w for w in words if not w.startswith(n + '=')] + [f'{n}=0x10']
    sep = draw(st.sampled_from([' ', '  ', '\t', ' \t ']))
    return {'kind': 'neg', 'text': sep.join(words)}


@st.composite
def stream_cases(draw):
    lines = []
    for _ in range(draw(st.integers(0, 10))):
        kind = draw(st.sampled_from(['valid', 'valid', 'invalid', 'blank', 'comment', 'valid-comment']))
        if kind in ('valid', 'valid-comment'):
            d = draw(S.msg_dict(time=st.sampled_from([0, 1, 2.5, -3, 2 ** 40]), max_sysex=5))
            words = valid_line(d)
            head, rest = words[0], draw(st.permutations(words[1:]))
            text = draw(st.sampled_from(['', ' ', '\t'])) + ' '.join([head] + list(rest))
            if kind == 'valid-comment':
                text += draw(st.sampled_from([' # note', '#x', '  # time=5 foo', ' ## #']))
            text += draw(st.sampled_from(['', '\n', ' \n']))
            lines.append(['valid', text, {**d, 'data': list(d['data'])} if 'data' in d else d])
        elif kind == 'invalid':
            neg = draw(negative_texts())['text']
            if not neg.strip() or '#' in neg:
                neg = 'foo bar'
            lines.append(['invalid', neg + draw(st.sampled_from(['', '\n', ' # c'])), None])
        elif kind == 'blank':
            lines.append(['blank', draw(st.sampled_from(['', '\n', '   ', '\t\n'])), None])
        else:
            lines.append(['comment', draw(st.sampled_from(['# hi', '#', '  # note_on', '#foo\n'])), None])
    return {'kind': 'stream', 'lines': lines, 'how': draw(st.sampled_from(['iter', 'list', 'tuple', 'file']))}


TOKENS = (list(R.ALL_TYPES) + [n + '=' for n in list(R.RANGES) + ['data', 'time', 'type', 'foo', '']] +
          ['0', '1', '127', '128', '-1', '1.5', '()', '(1,2)', '(', ')', ',', '=', ' ', ' ', '\t', '\n', 'e', 'x', '#',
           '1e999', 'nan', 'inf', '٣', '0x', '_', '+', '2' * 30])


def hyp_shard(rec, shard):
    block, k, n = shard
    if block == 'msg':
        strat = st.fixed_dictionaries({'kind': st.just('msg'), 'msg': S.msg_dict(time=FINITE_TIMES, max_sysex=120),
                                       'frozen': st.booleans()})
        rec.hyp(strat, n, seed_offset=k)
    elif block == 'meta':
        txt = st.text(st.one_of(st.characters(min_codepoint=32, max_codepoint=126),
                                st.sampled_from(['"', "'", '\\', '\n', '\t', 'é', 'ÿ', '\x00', '☃', '\U0001F3B5', '{', '}', '%'])),
                      max_size=20)
        strat = st.fixed_dictionaries({
            'kind': st.just('msg'),
            'msg': st.one_of(S.meta_dict(time=FINITE_TIMES, text=txt, max_hours=255, eot=True),
                             S.unknown_meta_dict(time=FINITE_TIMES)),
            'frozen': st.booleans()})
        rec.hyp(strat, n, seed_offset=100 + k)
    elif block == 'track':
        ev = st.one_of(S.msg_dict(time=FINITE_TIMES, max_sysex=6), S.meta_dict(time=S.small_times(), eot=True),
                       S.unknown_meta_dict(time=S.small_times()))
        sizes = st.sampled_from([0, 1, 1, 1, 2, 2, 3, 5, 8])
        strat = sizes.flatmap(lambda z: st.fixed_dictionaries({'kind': st.just('track'),
                                                               'msgs': st.lists(ev, min_size=z, max_size=z)}))
        rec.hyp(strat, n, seed_offset=200 + k)
    elif block == 'file':
        strat = st.fixed_dictionaries({'kind': st.just('file'), 'file': S.file_dicts(max_tracks=3, max_events=3),
                                       'disk': st.booleans()})
        rec.hyp(strat, n, seed_offset=300 + k)
    elif block == 'neg':
        rec.hyp(negative_texts(), n, seed_offset=400 + k)
    elif block == 'stream':
        rec.hyp(stream_cases(), n, seed_offset=500 + k)
    else:
        soup = st.lists(st.sampled_from(TOKENS), max_size=12).map(''.join)
        strat = st.fixed_dictionaries({'kind': st.just('arbitrary'), 'text': st.one_of(soup, st.text(max_size=30))})
        rec.hyp(strat, n, seed_offset=600 + k)


def main(ctx):
    n = 1200 if ctx.tier == 'quick' else 12000
    blocks = ['msg', 'msg', 'meta', 'track', 'file', 'neg', 'neg', 'stream', 'arbitrary']
    ctx.pmap('hyp_shard', [(b, i, n) for i, b in enumerate(blocks)] +
             ([(b, 50 + i, n) for i, b in enumerate(blocks)] if ctx.tier == 'thorough' else []))
    if ctx.tier == 'thorough':
        from lib.harness import run_fuzz
        seeds = [b'note_on channel=1 note=60 velocity=64 time=0', b'sysex data=(1,2,3) time=0.5',
                 b'pitchwheel channel=0 pitch=-8192 time=1e3', b'songpos pos=16383', b'clock']
        run_fuzz(ctx, 'C14', 600000, seeds, max_len=80, tokens=[t for t in TOKENS if t.strip()])
    # fixed shapes named in the statement
    for t in R.ALL_TYPES:
        ctx.check({'kind': 'msg', 'msg': R.default_msg(t) if t != 'sysex' else {'type': 'sysex', 'data': [], 'time': 0}})
        ctx.check({'kind': 'track', 'msgs': [R.default_msg(t) if t != 'sysex' else {'type': 'sysex', 'data': [], 'time': 0}]})
    for t in M.META:
        ctx.check({'kind': 'msg', 'msg': M.default_meta(t)})
        ctx.check({'kind': 'track', 'msgs': [M.default_meta(t)]})
    long_stream = [['valid', f'note_on channel={i % 16} note={i % 128} velocity=5 time={i}',
                    {'type': 'note_on', 'channel': i % 16, 'note': i % 128, 'velocity': 5, 'time': i}] if i % 50 else
                   ['comment', '# block', None] for i in range(11999)]
    long_stream.append(['invalid', 'note_on note=999', None])
    long_stream.append(['valid', 'clock time=1e-05', {'type': 'clock', 'time': 1e-05}])
    for how in ('iter', 'list', 'file'):
        ctx.check({'kind': 'stream', 'lines': long_stream, 'how': how}, sample=False)
    ctx.check({'kind': 'track', 'msgs': []})
    ctx.check({'kind': 'file', 'file': {'type': 1, 'tpb': 480, 'tracks': []}})
    ctx.check({'kind': 'file', 'file': {'type': 1, 'tpb': 480, 'tracks': [[]]}})
    ctx.check({'kind': 'file', 'file': {'type': 1, 'tpb': 480, 'tracks': [[R.default_msg('note_on')]]}, 'disk': True})
    ctx.check({'kind': 'file', 'file': {'type': 1, 'tpb': 480, 'tracks': []}, 'disk': True})
