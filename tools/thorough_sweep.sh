#!/bin/sh
# Run every thorough check once on the unchanged tree and report exit status and wall time.  usage: tools/thorough_sweep.sh [seed]
cd "$(dirname "$0")/.." || exit 2
bad=0
# a snapshot made by `vp run` holds committed files only: install the dependencies the way MANIFEST.setup_cmd does
[ -d .deps ] || /venv/bin/pip install --quiet --no-index --find-links /opt/veriftools/wheels --target ./.deps hypothesis atheris
for p in 01 02 03 04 05 06 07 08 09 10 11 12 13 14 15 16 17 18 19 20; do
  start=$(date +%s)
  out=$(VERIF_SEED=${1:-1} ./check C$p --tier thorough 2>&1); rc=$?
  end=$(date +%s)
  echo "C$p rc=$rc $((end-start))s $(echo "$out" | grep '^\[C' | tail -1)"
  if [ $rc -ne 0 ]; then bad=1; echo "$out" | tail -8; fi
done
exit $bad
