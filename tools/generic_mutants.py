#!/venv/bin/python
"""Generic mutation sampling: small syntactic edits of the anchored mido modules (comparison / boundary / boolean /
constant / statement-deletion operators), each run against the quick checks of the properties anchored in that file.
Complements the hand-written and sub-agent mutants: it is dumb but uniform, so it finds statements that are executed
by the checks yet not constrained by any oracle.

    tools/generic_mutants.py --n 200 [--seed 1] [--files mido/parser.py,...] [--out generic_mutants.log]

For each sampled mutant: (1) it must compile; (2) the repository's own test-suite is run - a mutant the tests already
kill is uninteresting and skipped; (3) the quick checks of the anchored properties run one after the other (variant child
skipped once the parent run has failed) until one reports a VIOLATION.  Survivors are printed with their diff; each one
is either an equivalent mutant (say why) or a gap.
"""
import argparse
import ast
import json
import os
import random
import re
import shutil
import subprocess
import sys
import tempfile

HERE = os.path.dirname(os.path.dirname(os.path.abspath(__file__)))
REPO = '/repo'

OPS = [
    (r'==', '!='), (r'!=', '=='), (r'<=', '<'), (r'>=', '>'), (r'(?<![<>=!])<(?![<=])', '<='), (r'(?<![<>=!-])>(?![>=])', '>='),
    (r'\band\b', 'or'), (r'\bor\b', 'and'), (r'\bnot ', ''), (r'\bTrue\b', 'False'), (r'\bFalse\b', 'True'),
    (r'\+ 1\b', '+ 2'), (r'- 1\b', '- 2'), (r'\+ 1\b', '- 1'), (r'\+', '-'), (r'(?<![-\w(\[=,] )-(?!>)', '+'), (r'<<', '>>'), (r'>>', '<<'),
    (r'\|', '&'), (r'&', '|'), (r'0x7f\b', '0x7e'), (r'0x80\b', '0x7f'), (r'0xf0\b', '0xf1'), (r'0xf7\b', '0xf6'),
    (r'\b127\b', '126'), (r'\b128\b', '129'), (r'\b0\b', '1'), (r'\b1\b', '0'), (r'\b1\b', '2'), (r'\bis None\b', 'is not None'),
    (r'\bis not None\b', 'is None'), (r'\bin\b(?! range)', 'not in'), (r'\.append\(', '.insert(0, '), (r'\.popleft\(\)', '.pop()'),
    (r'\[1:\]', '[2:]'), (r'\[:-1\]', '[:-2]'), (r'\[-1\]', '[0]'), (r'\[0\]', '[-1]'), (r'\bbreak\b', 'continue'),
    (r'\bcontinue\b', 'break'), (r'\bmin\(', 'max('), (r'\bmax\(', 'min('), (r'\braise\b', 'pass  # raise'),
]


def anchored():
    m = {}
    for line in open(os.path.join(HERE, 'properties.jsonl')):
        d = json.loads(line)
        for f in d['anchors']['files']:
            if os.path.exists(os.path.join(REPO, f)) and 'rtmidi' not in f:
                m.setdefault(f, []).append(d['id'])
    # checks that exercise a module although the property's anchor list does not name it
    for f, extra in (('mido/midifiles/tracks.py', ['C16']), ('mido/frozen.py', ['C12']), ('mido/messages/checks.py', ['C02', 'C09']),
                     ('mido/parser.py', ['C10', 'C11'])):
        if f in m:
            m[f] += [p for p in extra if p not in m[f]]
    return m


def candidates(path):
    """(line number, description, new line text) for every operator match outside comments / docstrings."""
    src = open(path).read()
    lines = src.split('\n')
    tree = ast.parse(src)
    doc = set()
    for node in ast.walk(tree):
        if isinstance(node, ast.Expr) and isinstance(node.value, ast.Constant) and isinstance(node.value.value, str):
            doc.update(range(node.lineno, node.end_lineno + 1))
    out = []
    for i, text in enumerate(lines, 1):
        code = text.split('#')[0]
        if i in doc or not code.strip() or code.strip().startswith(('import ', 'from ', '@', 'def ', 'class ')):
            continue
        for pat, rep in OPS:
            for mt in re.finditer(pat, code):
                # not inside a string literal (crude: even number of quotes before the match)
                before = code[:mt.start()]
                if before.count("'") % 2 or before.count('"') % 2:
                    continue
                new = code[:mt.start()] + rep + code[mt.end():] + text[len(code):]
                if new != text:
                    out.append((i, f'{pat} -> {rep}', new))
        # statement deletion for simple statements
        st = code.strip()
        if re.match(r'^(self\.)?[\w\.\[\]]+ (=|\+=|-=) ', st) or re.match(r'^[\w\.]+\(.*\)$', st):
            indent = text[:len(text) - len(text.lstrip())]
            out.append((i, 'delete statement', indent + 'pass  # ' + st))
    return src, lines, out


def run(cmd, cwd=None, env=None, timeout=1800):
    try:
        p = subprocess.run(cmd, cwd=cwd, env=env, capture_output=True, text=True, timeout=timeout)
        return p.returncode, p.stdout + p.stderr
    except subprocess.TimeoutExpired:
        return 124, 'timeout'


def main():
    ap = argparse.ArgumentParser()
    ap.add_argument('--n', type=int, default=100)
    ap.add_argument('--seed', type=int, default=1)
    ap.add_argument('--files')
    ap.add_argument('--out', default=os.path.join(HERE, 'generic_mutants.log'))
    args = ap.parse_args()
    files = anchored()
    if args.files:
        files = {f: v for f, v in files.items() if f in args.files.split(',')}
    pool = []
    for f in sorted(files):
        src, lines, cands = candidates(os.path.join(REPO, f))
        pool += [(f, ln, desc, new) for ln, desc, new in cands]
    rng = random.Random(args.seed)
    rng.shuffle(pool)
    log = open(args.out, 'a')

    def say(*a):
        text = ' '.join(str(x) for x in a)
        print(text, flush=True)
        log.write(text + '\n')
        log.flush()
    say(f'# pool {len(pool)} candidates in {len(files)} files, sampling {args.n}, seed {args.seed}')
    done = 0
    stats = {'tests-kill': 0, 'caught': 0, 'SURVIVED': 0, 'no-compile': 0}
    for f, ln, desc, new in pool:
        if done >= args.n:
            break
        tmp = tempfile.mkdtemp(prefix='mido_gm_')
        try:
            dst = os.path.join(tmp, 'repo')
            subprocess.run(['git', 'clone', '-q', '--no-hardlinks', REPO, dst], check=True)
            path = os.path.join(dst, f)
            lines = open(path).read().split('\n')
            old = lines[ln - 1]
            lines[ln - 1] = new
            text = '\n'.join(lines)
            try:
                compile(text, path, 'exec')
            except SyntaxError:
                stats['no-compile'] += 1
                continue
            open(path, 'w').write(text)
            env = dict(os.environ, PYTHONPATH=dst, PYTHONDONTWRITEBYTECODE='1')
            rc, out = run(['/venv/bin/python', '-m', 'pytest', '-q', '-x', '-p', 'no:cacheprovider', '--timeout=120',
                           '--deselect', 'tests/midifiles/test_tracks.py::test_merge_large_midifile'], cwd=dst, env=env, timeout=600)
            done += 1
            tag = f'{f}:{ln} [{desc}]'
            if rc != 0:
                stats['tests-kill'] += 1
                say(f'tests-kill {tag}')
                continue
            verdict = 'SURVIVED'
            for pid in files[f]:
                env2 = dict(os.environ, MIDO_REPO=dst, VERIF_AUDIT='1', VERIF_SEED='1')
                rc, out = run([os.path.join(HERE, 'check'), pid], env=env2, timeout=1500)
                if rc == 1:
                    verdict = f'caught by {pid}'
                    break
                if rc not in (0, 1):
                    verdict = f'caught by {pid} (harness error rc={rc}: {out.strip().splitlines()[-1][:120] if out.strip() else ""})'
                    break
            stats['caught' if verdict.startswith('caught') else 'SURVIVED'] += 1
            say(f'{verdict:28s} {tag}')
            if verdict == 'SURVIVED':
                say(f'    - {old.strip()}')
                say(f'    + {new.strip()}')
        finally:
            shutil.rmtree(tmp, ignore_errors=True)
    say(f'# result {stats}')


if __name__ == '__main__':
    main()
