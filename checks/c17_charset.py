"""C17 - text encoding follows the file charset and never leaks out of a call."""
import codecs
import io

from hypothesis import assume
from hypothesis import strategies as st

import mido
import mido.midifiles.meta as meta_mod
from lib import refmeta as M
from lib import refsmf as F
from lib.harness import exc_sig, fail

PID = 'C17'
LEVEL = 'fault_enumeration'
RULE = ('Hypothesis draws (charset, texts for 1-4 text-carrying meta events of any of the 8 types, a few other events); '
        'charsets latin1, utf-8, cp1252, ascii, shift_jis, euc_jp, big5, koi8_r, cp437, iso8859_15, utf-16, utf-16-le, '
        'utf-32, cp500, utf-7; texts from characters encodable in the charset (single assume: Python\'s codec round-trips '
        'the text). For each drawn file ALL fault points are enumerated: load of every truncation b[:k] (0<=k<=len), load '
        'with one data byte > 127, with bytes undecodable in the charset, with a bad key signature, with a misspelt charset '
        'name; save with a non-integral delta or a real-time message as the n-th event for every n, with a text not '
        'encodable in the charset, with a type-0 track-count error. Oracle: success path - the strict reference decoder '
        'finds text.encode(charset) as the payload of every text event and loading with the charset returns the text; '
        'after EVERY call, succeeded or raised, a probe through the public API (MetaMessage("text", text="e-acute").bytes() '
        'ends in E9 and from_bytes([FF,01,01,E9]).text is e-acute) shows latin1 in force. Non-trivial: success = charset '
        'other than latin1 and a character whose encoding differs from latin1; fault = the call raised inside the charset '
        'scope. Distinct by (charset, texts, fault point).'
        ' Later additions: failing write() at every call, exception kept alive, with-form, by file name, charset'
        ' aliases, texts that look like another encoding\'s signature or are special in Unicode (BOMs, U+FEFF,'
        ' UTF-7/ISO-2022 escapes), latin1 transparency probes after every call.')
ASSUMPTIONS = ['run_case resets the module-level charset at its top so that one leak cannot contaminate later cases']

CHARSETS = ['latin1', 'utf-8', 'cp1252', 'ascii', 'shift_jis', 'euc_jp', 'big5', 'koi8_r', 'cp437', 'iso8859_15',
            'utf-16', 'utf-16-le', 'utf-32', 'cp500', 'utf-7',
            # other spellings of the same codecs (the name is handed to Python's codec registry as it is)
            'UTF-8', 'utf8', 'Latin-1', 'ISO-8859-1', 'us-ascii', 'UTF-16-BE', 'utf_16_be', 'cp932', 'mac_roman', 'utf-8-sig']
TEXT_ATTR = {t: a for t, (_, a) in M.TEXT_TYPES.items()}


def probe(where, texts=()):
    out = []
    # the very texts the call has just handled must also be back to latin1 (a cache keyed by text would leak here)
    for t in texts:
        try:
            want = list(t.encode('latin1'))
        except UnicodeEncodeError:
            want = None
        try:
            got = mido.MetaMessage('lyrics', text=t).bytes()
            pay = got[2 + len(M.vlq(len(want))):] if want is not None else None
            if want is None or pay != want:
                out.append(fail('charset-leak', f'after {where}: MetaMessage("lyrics", text={t!r}).bytes() = {got[:12]} '
                                                f'(latin1 payload would be {want})', where=where))
                break
        except UnicodeEncodeError:
            if want is not None:
                out.append(fail('charset-leak', f'after {where}: text {t!r} no longer encodes as latin1', where=where))
                break
        except Exception as exc:  # noqa: BLE001
            out.append(fail('charset-leak', f'after {where}: probe raised {exc!r}', where=where))
            break
    try:
        b = mido.MetaMessage('text', text='é').bytes()
        if b[-1:] != [0xE9] or len(b) != 4:
            out.append(fail('charset-leak', f'after {where}: MetaMessage("text", text="é").bytes() = {b}', where=where))
        t = mido.MetaMessage.from_bytes([0xFF, 1, 1, 0xE9]).text
        if t != 'é':
            out.append(fail('charset-leak', f'after {where}: from_bytes decodes E9 as {t!r}', where=where))
        # latin1 is byte-transparent: payloads that look like another encoding's signature are still latin1 text
        for pay in ([0xEF, 0xBB, 0xBF, 0x61], [0xFE, 0xFF, 0, 0x61], [0xFF, 0xFE, 0x61, 0], [0x2B, 0x41, 0x47, 0x45, 0x2D]):
            t = mido.MetaMessage.from_bytes([0xFF, 5, len(pay)] + pay).text
            if t != bytes(pay).decode('latin1'):
                out.append(fail('charset-leak', f'after {where}: default-charset decoding of {pay} gives {t!r}', where=where))
                break
    except Exception as exc:  # noqa: BLE001
        out.append(fail('charset-leak', f'after {where}: probe raised {exc!r}', where=where))
    return out


def events_of(case):
    evs = []
    for i, (t, text) in enumerate(case['texts']):
        evs.append({'type': t, TEXT_ATTR[t]: text, 'time': i})
        if i % 2 == 0:
            evs.append({'type': 'note_on', 'channel': 0, 'note': 60 + i, 'velocity': 64, 'time': 1})
    evs.append({'type': 'key_signature', 'key': 'Ebm', 'time': 0})
    evs.append({'type': 'control_change', 'channel': 1, 'control': 7, 'value': 99, 'time': 2})
    evs.append({'type': 'end_of_track', 'time': 0})
    return evs


def build(case, evs=None):
    evs = evs if evs is not None else events_of(case)
    if case.get('assign_charset'):
        mid = mido.MidiFile(type=1, ticks_per_beat=480)
        mid.charset = case['charset']            # the public attribute, set after construction
    else:
        mid = mido.MidiFile(type=1, ticks_per_beat=480, charset=case['charset'])
    mid.tracks.append(mido.MidiTrack([M.to_mido(d) for d in evs]))
    return mid


def reference_bytes(case):
    return F.encode_file(1, 480, [events_of(case)], charset=case['charset'])[0]


class FailingFile:
    """A writable file object whose n-th write() raises OSError (disk full, broken pipe ...)."""

    def __init__(self, n):
        self.n = n
        self.buf = io.BytesIO()

    def write(self, data):
        if self.n <= 0:
            raise self.exc
        self.n -= 1
        return self.buf.write(data)

    exc = OSError(28, 'No space left on device')


class Interrupt(BaseException):
    """What Ctrl-C, sys.exit() in a signal handler or a cancelled task look like: not an Exception subclass."""


class InterruptedReader:
    """A readable file object whose read() raises after k bytes have been handed out."""

    def __init__(self, data, k, exc):
        self.buf = io.BytesIO(data)
        self.k = k
        self.exc = exc

    def read(self, n=-1):
        if self.buf.tell() + (n if n and n > 0 else 0) > self.k:
            raise self.exc
        return self.buf.read(n)

    def tell(self):
        return self.buf.tell()

    def seek(self, *a):
        return self.buf.seek(*a)


def check_success(case):
    cs = case['charset']
    out = []
    mid = build(case)
    buf = io.BytesIO()
    try:
        if case.get('via_filename'):
            import os
            import tempfile
            with tempfile.TemporaryDirectory(prefix='c17_') as tmp:
                path = os.path.join(tmp, 't.mid')
                mid.save(path)
                with open(path, 'rb') as f:
                    buf = io.BytesIO(f.read())
                back = mido.MidiFile(path, charset=cs)
                got = [getattr(m, TEXT_ATTR[m.type]) for m in back.tracks[0] if m.type in TEXT_ATTR]
                if got != [text for _, text in case['texts']]:
                    out.append(fail('text-roundtrip', f'{cs} (via filename): loaded {got!r}', charset=cs))
        else:
            mid.save(file=buf)
    except Exception as exc:  # noqa: BLE001
        return [fail('save-raises', f'{cs} {case["texts"]!r} (via_filename={case.get("via_filename")}): {exc!r}',
                     exc=exc_sig(exc), charset=cs)] + probe('save')
    out += probe('save', [t for _, t in case['texts']])
    b = buf.getvalue()
    try:
        _, tracks, flags = F.strict_decode(b)
        payloads = [bytes(info[1]) for kind, _, info in tracks[0] if kind == 'meta' and info[0] in
                    {v[0] for v in M.TEXT_TYPES.values()}]
        want = [text.encode(cs) for _, text in case['texts']]
        if payloads != want:
            out.append(fail('file-bytes', f'{cs}: payloads in file {payloads!r}, expected {want!r}', charset=cs))
    except Exception as exc:  # noqa: BLE001
        out.append(fail('file-bytes', f'{cs}: strict decoder: {exc!r}', charset=cs))
    # the with-form of MidiFile: the charset must not stay in force inside the block once load / save have returned
    try:
        with mido.MidiFile(file=io.BytesIO(b), charset=cs) as inside:
            out += probe('load (inside a with-block)', [t for _, t in case['texts']])
            inside.save(file=io.BytesIO())
            out += probe('save (inside a with-block)')
        out += probe('with-block exit')
    except Exception as exc:  # noqa: BLE001
        out.append(fail('load-raises', f'{cs} (with-block): {exc!r}', exc=exc_sig(exc), charset=cs))
    # (the third pass loads with clip=True: clipping concerns data bytes of channel and sysex messages, never the bytes of
    # a text - round 14: one clamp-to-127 for everything the reader fetches)
    for source, data in (('saved', b), ('reference', reference_bytes(case)), ('saved, clip=True', b)):
        try:
            back = mido.MidiFile(file=io.BytesIO(data), charset=cs, clip=source.endswith('clip=True'))
            got = [getattr(m, TEXT_ATTR[m.type]) for m in back.tracks[0] if m.type in TEXT_ATTR]
            if got != [text for _, text in case['texts']]:
                out.append(fail('text-roundtrip', f'{cs} ({source}): loaded {got!r}, expected '
                                                  f'{[t for _, t in case["texts"]]!r}', charset=cs))
        except Exception as exc:  # noqa: BLE001
            out.append(fail('load-raises', f'{cs} ({source}): {exc!r}', exc=exc_sig(exc), charset=cs))
        out += probe('load', [t for _, t in case['texts']])
    return out


def check_fault(case):
    cs = case['charset']
    f = case['fault']
    kind = f['kind']
    raised = None
    if kind in ('truncate', 'hibyte', 'undecodable', 'badkey', 'badcharset-load', 'read-interrupted'):
        b = bytearray(reference_bytes(case))
        use_cs = cs
        if kind == 'truncate':
            b = b[:f['k']]
        elif kind == 'hibyte':
            # the controller number of the control_change near the end
            i = bytes(b).rfind(bytes([0xB1, 7, 99]))
            b[i + 1] = 0x80 + (f.get('v', 0) % 128)
        elif kind == 'undecodable':
            # overwrite the payload of the first text event with bytes that are invalid in most multi-byte codecs
            evs = events_of(case)
            bad = bytes(f['bytes'])
            evs[0] = {'type': 'unknown_meta', 'type_byte': M.META[evs[0]['type']][0], 'data': list(bad), 'time': 0}
            b = bytearray(F.encode_file(1, 480, [evs], charset=cs)[0])
        elif kind == 'badkey':
            i = bytes(b).rfind(bytes([0xFF, 0x59, 2]))
            b[i + 3] = 9
        elif kind == 'badcharset-load':
            use_cs = f['name']
        source = io.BytesIO(bytes(b))
        if kind == 'read-interrupted':
            source = InterruptedReader(bytes(b), f['k'], {'os': OSError(5, 'Input/output error'), 'interrupt': Interrupt(),
                                                         'keyboard': KeyboardInterrupt()}[f['exc']])
        try:
            mido.MidiFile(file=source, charset=use_cs)
        except (Exception, Interrupt, KeyboardInterrupt) as exc:  # noqa: BLE001
            raised = exc
        where = f'load[{kind}]'
    else:
        evs = events_of(case)
        mid = build(case, evs)
        tr = mid.tracks[0]
        if kind == 'float-time':
            n = f['n'] % len(tr)
            tr[n] = tr[n].copy(time=0.5)
        elif kind == 'realtime':
            tr.insert(f['n'] % (len(tr) + 1), mido.Message(f.get('rt', 'clock')))
        elif kind == 'unencodable':
            tr.insert(f['n'] % (len(tr) + 1), mido.MetaMessage('lyrics', text=f['text']))
        elif kind == 'type0':
            mid.type = 0
            mid.tracks.append(mido.MidiTrack())
        elif kind == 'badcharset-save':
            mid.charset = f['name']
        target = FailingFile(f['n']) if kind in ('write-fails', 'write-interrupted') else io.BytesIO()
        if kind == 'write-interrupted':
            target.exc = {'interrupt': Interrupt(), 'keyboard': KeyboardInterrupt(), 'exit': SystemExit(3)}[f['exc']]
        try:
            mid.save(file=target)
        except (Exception, Interrupt, KeyboardInterrupt, SystemExit) as exc:  # noqa: BLE001
            raised = exc            # kept alive (with its traceback and frames) until after the probe below
        where = f'save[{kind}]'
    out = probe(where, [t for _, t in case['texts']] + ([f['text']] if 'text' in f else []))
    case['_raised'] = raised is not None
    return out


def run_case(case):
    meta_mod._charset = 'latin1'
    try:
        if case.get('kind') == 'nested':
            return check_nested(case)
        if 'fault' in case:
            return check_fault(dict(case))
        return check_success(case)
    finally:
        meta_mod._charset = 'latin1'


def check_nested(case):
    mc = getattr(meta_mod, 'meta_charset', None)
    if mc is None:
        return []
    out = []
    a, b = case['outer'], case['inner']
    try:
        with mc(a):
            enc_a = mido.MetaMessage('text', text='é').bytes()
            try:
                with mc(b):
                    if case.get('raise_inner'):
                        raise RuntimeError('x')
            except RuntimeError:
                pass
            if mido.MetaMessage('text', text='é').bytes() != enc_a:
                out.append(fail('nested-restore', f'after inner scope {b} the outer charset {a} is not in force'))
    except Exception as exc:  # noqa: BLE001
        out.append(fail('nested-raises', f'{exc!r}', exc=exc_sig(exc)))
    return out + probe('nested')


def nontrivial(case):
    if case.get('kind') == 'nested':
        return case['outer'] != case['inner']
    if 'fault' in case:
        c = dict(case)
        meta_mod._charset = 'latin1'
        try:
            check_fault(c)
        finally:
            meta_mod._charset = 'latin1'
        return bool(c.get('_raised'))
    cs = case['charset']
    if cs in ('latin1',):
        return False
    return any(text.encode(cs) != text.encode('latin1', errors='replace') for _, text in case['texts'])


def faults_for(case):
    """All fault points of one drawn file."""
    b = reference_bytes(case)
    out = [{'kind': 'truncate', 'k': k} for k in range(len(b) + 1)]
    out += [{'kind': 'hibyte', 'v': v} for v in (0, 127)]
    out += [{'kind': 'undecodable', 'bytes': bb} for bb in ([0xFF, 0xFE, 0xFD], [0x81], [0x80, 0x80], [0xC3],
                                                            [0xD8, 0x00, 0xD8])]
    out += [{'kind': 'badkey'}]
    out += [{'kind': 'badcharset-load', 'name': nm} for nm in ('utf-8x', 'shift-jiss', 'no_such_codec')]
    n_ev = len(events_of(case))
    for n in range(n_ev):
        out.append({'kind': 'float-time', 'n': n})
    for n in range(n_ev + 1):
        out.append({'kind': 'realtime', 'n': n, 'rt': ['clock', 'start', 'reset'][n % 3]})
        out.append({'kind': 'unencodable', 'n': n, 'text': '☃é퟿\U0001F3B5'})
    out.append({'kind': 'type0'})
    out += [{'kind': 'write-fails', 'n': n} for n in range(0, 8)]
    # ... and faults that are not Exception subclasses (an interrupt arriving in the middle of the call)
    out += [{'kind': 'write-interrupted', 'n': n, 'exc': e} for n in (0, 1, 2, 3, 5) for e in ('interrupt', 'keyboard', 'exit')]
    out += [{'kind': 'read-interrupted', 'k': k, 'exc': e} for k in (0, 4, 14, 18, 22, 30, 40) for e in ('os', 'interrupt', 'keyboard')]
    out += [{'kind': 'badcharset-save', 'name': nm} for nm in ('utf-8x', 'no_such_codec')]
    return out


@st.composite
def base_cases(draw):
    cs = draw(st.sampled_from(CHARSETS))
    texts = []
    for _ in range(draw(st.integers(1, 4))):
        t = draw(st.sampled_from(sorted(TEXT_ATTR)))
        alpha = st.characters(codec=cs, exclude_categories=['Cs'])
        opts = [st.text(alpha, max_size=8), st.sampled_from(['', 'a', 'abc', 'A b', 'abc\x00', '\x00', 'pad\x00\x00', '\xef\xbb\xbfabc', '\xef\xbb\xbf',
                                                               '\xfe\xff\x00a', '\xff\xfea\x00', '+AGE-', '\x1b$B',
                                                               # characters that are invisible or special in Unicode are still text
                                                               '\ufeffIntro', '\ufeff', 'a\ufeff', '\ufffeX', '\u200bzero',
                                                               '\u2028line', 'e\u0301', '\ud7ff', '\uffff'])]
        if codecs.lookup(cs).name != 'ascii':
            opts.append(st.text(st.characters(codec=cs, min_codepoint=0x80, exclude_categories=['Cs']), max_size=4))
        text = draw(st.one_of(*opts))
        try:
            ok = text.encode(cs).decode(cs) == text
        except (UnicodeError, LookupError):
            ok = False
        assume(ok)
        texts.append([t, text])
    return {'charset': cs, 'texts': texts, 'assign_charset': draw(st.booleans()),
            'via_filename': draw(st.sampled_from([False, False, True]))}


def hyp_shard(rec, shard):
    k, n = shard

    def body(case):
        unknown = rec.run(case)
        if unknown:
            return unknown
        for f in faults_for(case):
            c = {**case, 'fault': f}
            unknown = rec.run(c, sample=(f['kind'] == 'truncate' and f['k'] == 30))
            rec.classes['fault-' + f['kind']] += 1
            if unknown:
                # keep the single failing fault point as the case to report / shrink on
                rec._pending = (c, unknown)
                return unknown
        return []
    rec.hyp(base_cases(), n, body=body, seed_offset=k)


def main(ctx):
    n = 320 if ctx.tier == 'quick' else 32000
    w = 8 if ctx.tier == 'quick' else 16
    ctx.pmap('hyp_shard', [(k, n // w) for k in range(w)])
    for a in ('utf-8', 'utf-16', 'cp1252'):
        for b in ('latin1', 'utf-8', 'shift_jis'):
            for r in (False, True):
                ctx.check({'kind': 'nested', 'outer': a, 'inner': b, 'raise_inner': r})
    # fixed success cases: one per charset with a character that separates it from latin1
    for cs, text in (('utf-8', 'é☃'), ('cp1252', '€'), ('shift_jis', '日本'), ('euc_jp', '日本'), ('big5', '中文'),
                     ('koi8_r', 'привет'), ('cp437', 'é'), ('iso8859_15', '€'), ('utf-16', 'aé'), ('utf-16-le', 'a'),
                     ('utf-32', ''), ('cp500', 'abc'), ('utf-7', 'a+b'), ('ascii', 'plain'), ('latin1', 'éÿ')):
        ctx.check({'charset': cs, 'texts': [['text', text], ['track_name', text]]})
        ctx.check({'charset': cs, 'texts': [['lyrics', text]], 'assign_charset': True})
        ctx.check({'charset': cs, 'texts': [['marker', text]], 'via_filename': True})
    ctx.exhaustive = False
    ctx.extra['fault_points'] = 'per drawn file: every truncation offset, 2 high data bytes, 5 undecodable payloads, bad key, ' \
                                '3+2 bad charset names, float time / real-time / unencodable text at every event index, type-0'
