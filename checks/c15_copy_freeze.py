"""C15 - copy, freeze and thaw have value semantics."""
import io

from hypothesis import strategies as st

import mido
from mido.frozen import (FrozenMessage, FrozenMetaMessage, FrozenUnknownMetaMessage, freeze_message, is_frozen,
                         thaw_message)

from lib import refmeta as M
from lib import refmidi as R
from lib import refsmf as F
from lib import strategies as S
from lib.harness import exc_sig, fail
from lib.vals import T, dec, items_of

PID = 'C15'
LEVEL = 'exploration'
RULE = ('Hypothesis: Message (18 types), MetaMessage (all known types) and UnknownMetaMessage values x override sets '
        '(valid, out-of-range, wrong type, unknown name, type= same and different) x assignments on original and copy; '
        'equal messages built along different routes (constructor, from_bytes / reading from a file, copy(), int vs equal '
        'float time). Oracle: copy() is a distinct equal object of the same class; copy(**ov) equals a freshly constructed '
        'message, invalid overrides raise and leave the original intact; assignments never leak between original and copy; '
        'freeze maps each class to its frozen counterpart, equals the original, rejects setattr/delattr/data+=; equal '
        'frozen messages hash equal and find each other in dict/set; thaw(freeze(m))==m with the original class and a new '
        'identity; freeze(frozen) is frozen; thaw(non-frozen) is an equal distinct copy; None maps to None. Non-trivial = at '
        'least one override or post-copy assignment; distinct by (value, overrides).'
        ' Later additions: messages from every construction route (from_bytes, parser, file, from_str, from_dict,'
        ' copy) compared and hashed against each other, frozen messages kept alive across cases, -1/-2 twins,'
        ' copy(type=<equal string>), copies of frozen messages.')
ASSUMPTIONS = ['UnknownMetaMessage performs no validation at all, so only valid overrides are generated for it']

OKEXC = (ValueError, TypeError, AttributeError, BytesWarning)   # (BytesWarning: bytes value vs str under python -bb)
FROZEN_OF = {mido.Message: FrozenMessage, mido.MetaMessage: FrozenMetaMessage,
             mido.UnknownMetaMessage: FrozenUnknownMetaMessage}


def build(d, seq_list=False):
    if d['type'] == 'sequencer_specific' and seq_list:
        return mido.MetaMessage('sequencer_specific', data=list(d['data']), time=d.get('time', 0))
    return M.to_mido(d)


def fresh(d, ov):
    dd = dict(d)
    dd.update(ov)
    return M.to_mido(dd)


def snap(m):
    return {k: (v, type(v)) for k, v in vars(m).items()}


ALIVE = []       # frozen messages of earlier cases stay referenced (an interning table keyed by hash would hand them out)


def other_routes(d, m):
    """Equal messages built along other routes."""
    out = [('copy', m.copy())]
    try:
        if not M.is_meta(d):
            out.append(('from_bytes', mido.Message.from_bytes(m.bytes(), time=m.time)))
            if isinstance(m.time, int) and not isinstance(m.time, bool) and abs(m.time) < 2 ** 53:
                out.append(('float-time', m.copy(time=float(m.time))))
            out.append(('from_dict', mido.Message.from_dict(m.dict())))
        else:
            out.append(('from_bytes', mido.MetaMessage.from_bytes(m.bytes()).copy(time=m.time)))
            if isinstance(m.time, int) and 0 <= m.time < 2 ** 28:
                fb, _ = F.encode_file(1, 480, [[{**d, 'time': m.time}] + (
                    [] if d['type'] == 'end_of_track' else [{'type': 'end_of_track', 'time': 0}])])
                out.append(('from_file', mido.MidiFile(file=io.BytesIO(fb)).tracks[0][0]))
    except Exception:  # noqa: BLE001
        pass
    return out


def check_case(case):
    d = case['msg']
    seq_list = case.get('seq_list', False)
    t = d['type']
    facts = dict(type=t)
    out = []
    try:
        m = build(d, seq_list)
    except Exception as exc:  # noqa: BLE001
        return [fail('build-raises', f'{d}: {exc!r}', exc=exc_sig(exc))]
    cls = type(m)
    base = snap(m)
    # ---- copy ----
    try:
        c = m.copy()
    except Exception as exc:  # noqa: BLE001
        return [fail('copy-raises', f'{m!r}: {exc!r}', exc=exc_sig(exc), **facts)]
    if c is m or type(c) is not cls or not (c == m):
        out.append(fail('copy', f'copy() of {m!r} -> {c!r} (same object: {c is m}, class {type(c).__name__})', **facts))
    for ov_enc in case.get('valid_ov', []):
        ov = {k: dec(v) for k, v in ov_enc.items()}
        try:
            c2 = m.copy(**ov)
            want_d = dict(d)
            for k, v in ov.items():
                if k != 'type':
                    # decode again for the expectation: a generator handed to copy() has been consumed by it
                    want_d[k] = items_of(ov_enc[k]) if k == 'data' else v
            want = build(want_d, False)
            if seq_list and 'data' not in ov and t == 'sequencer_specific':
                want = build(want_d, True)
            if c2 is m or type(c2) is not cls or not (c2 == want):
                out.append(fail('copy-override', f'{m!r}.copy({ov}) -> {c2!r}, fresh construction gives {want!r}', **facts))
        except Exception as exc:  # noqa: BLE001
            out.append(fail('copy-override-raises', f'{m!r}.copy({ov}): {exc!r}', exc=exc_sig(exc), **facts))
        if snap(m) != base:
            out.append(fail('copy-mutates-original', f'{m!r} changed by copy({ov})', **facts))
            return out
    for ov_enc in case.get('invalid_ov', []):
        ov = {k: dec(v) for k, v in ov_enc.items()}
        try:
            c2 = m.copy(**ov)
            out.append(fail('copy-accepts-invalid', f'{m!r}.copy({ov_enc}) -> {c2!r}', attr=next(iter(ov)), **facts))
        except OKEXC:
            pass
        except Exception as exc:  # noqa: BLE001
            out.append(fail('copy-wrong-exception', f'{m!r}.copy({ov_enc}): {exc!r}', exc=exc_sig(exc), **facts))
        if snap(m) != base:
            out.append(fail('copy-mutates-original', f'{m!r} changed by rejected copy({ov_enc})', **facts))
            return out
    # ---- independence after copy ----
    for target, (name, enc) in case.get('assign', []):
        a, b = (m, c) if target == 'orig' else (c, m)
        before_b = snap(b)
        try:
            setattr(a, name, dec(enc))
        except OKEXC:
            pass
        if snap(b) != before_b:
            out.append(fail('aliasing', f'assigning {name} on the {target} changed the other object', **facts))
            return out
    m = build(d, seq_list)          # fresh, unassigned
    # ---- freeze ----
    try:
        fz = freeze_message(m)
    except Exception as exc:  # noqa: BLE001
        return out + [fail('freeze-raises', f'{m!r}: {exc!r}', exc=exc_sig(exc), **facts)]
    if type(fz) is not FROZEN_OF[cls] or not is_frozen(fz) or is_frozen(m):
        out.append(fail('freeze-class', f'freeze({cls.__name__}) -> {type(fz).__name__}', **facts))
    if not (fz == m) or not (m == fz) or fz is m:
        out.append(fail('freeze-equal', f'freeze({m!r}) -> {fz!r}', **facts))
    if len(ALIVE) < 20000:
        ALIVE.append(fz)
    # neighbours whose hashes collide in CPython (hash(-1) == hash(-2)) are different messages
    for attr in ('pitch', 'time'):
        if attr in d and d[attr] in (-1, -2) and t != 'unknown_meta':
            try:
                twin = build({**d, attr: -3 - d[attr]}, seq_list)
                ftwin = freeze_message(twin)
                ALIVE.append(ftwin)
                if ftwin == fz or not (ftwin == twin) or len({fz: 1, ftwin: 2}) != 2 or {fz: 1, ftwin: 2}[fz] != 1:
                    out.append(fail('freeze-equal', f'{attr}=-1 and {attr}=-2 are confused after freezing: {fz!r} / {ftwin!r}',
                                    **facts))
            except OKEXC:
                pass
    if freeze_message(fz) is not fz:
        out.append(fail('freeze-idempotent', 'freeze(frozen) is not the same object', **facts))
    try:
        fc = fz.copy()
        fc2 = fz.copy(time=5)
        if type(fc) is not type(fz) or type(fc2) is not type(fz) or not (fc == m) or fc2.time != 5:
            out.append(fail('frozen-copy-class', f'copy of a {type(fz).__name__} gives {type(fc).__name__} / '
                                                 f'{type(fc2).__name__}', **facts))
        else:
            hash(fc2)
            try:
                fc2.time = 6
                out.append(fail('frozen-copy-class', 'the copy of a frozen message accepts assignment', **facts))
            except OKEXC:
                pass
    except Exception as exc:  # noqa: BLE001
        if not (t == 'sequencer_specific' and seq_list):
            out.append(fail('frozen-copy-raises', f'{fz!r}.copy(): {exc!r}', exc=exc_sig(exc), **facts))
    fbase = snap(fz)
    for name in list(vars(fz)) + ['foo', 'type']:
        val = vars(fz).get(name, 1)
        try:
            setattr(fz, name, val)
            out.append(fail('frozen-setattr-accepted', f'setattr(frozen {t}, {name!r}) did not raise', **facts))
        except OKEXC:
            pass
        except Exception as exc:  # noqa: BLE001
            out.append(fail('frozen-wrong-exception', f'setattr {name}: {exc!r}', exc=exc_sig(exc), **facts))
        try:
            delattr(fz, name)
            out.append(fail('frozen-delattr-accepted', f'delattr(frozen {t}, {name!r}) did not raise', **facts))
        except OKEXC:
            pass
        except Exception as exc:  # noqa: BLE001
            out.append(fail('frozen-wrong-exception', f'delattr {name}: {exc!r}', exc=exc_sig(exc), **facts))
    if 'data' in vars(fz) and isinstance(vars(fz)['data'], tuple):
        try:
            fz.data += (1,)
            out.append(fail('frozen-iadd-accepted', 'data += on a frozen message did not raise', **facts))
        except OKEXC:
            pass
    if snap(fz) != fbase:
        out.append(fail('frozen-mutated', f'frozen message changed: {fbase} -> {snap(fz)}', **facts))
    if snap(m) != snap(build(d, seq_list)):
        out.append(fail('freeze-mutates-original', 'original changed by freezing', **facts))
    # ---- hashing ----
    try:
        h = hash(fz)
    except Exception as exc:  # noqa: BLE001
        out.append(fail('hash-raises', f'hash(frozen {m!r}): {exc!r}', exc=exc_sig(exc), **facts))
        h = None
    if h is not None:
        for route, other in other_routes(d, m):
            if not (other == m):
                continue            # route did not give an equal message (other properties judge that)
            if t != 'unknown_meta':
                try:
                    same_type = ''.join(list(other.type))        # an equal string that is a different object
                    c3 = other.copy(type=same_type, time=other.time)
                    if not (c3 == other) or type(c3) is not type(other):
                        out.append(fail('copy-override', f'copy(type=<same type>) of a message from route {route} -> {c3!r}',
                                        route=route, **facts))
                except Exception as exc:  # noqa: BLE001
                    out.append(fail('copy-override-raises', f'copy(type={other.type!r}) of a message from route {route}: '
                                                            f'{exc!r}', route=route, exc=exc_sig(exc), **facts))
            fo = freeze_message(other)
            try:
                if hash(fo) != h:
                    out.append(fail('hash-differs', f'equal frozen messages hash differently (route {route}): '
                                                    f'{fz!r} vs {fo!r}; vars order {list(vars(fz))} / {list(vars(fo))}',
                                    route=route, **facts))
                elif {fz: 1}.get(fo) != 1 or fo not in {fz}:
                    out.append(fail('dict-lookup', f'frozen message not found by an equal one (route {route})', **facts))
            except Exception as exc:  # noqa: BLE001
                out.append(fail('hash-raises', f'route {route}: {exc!r}', exc=exc_sig(exc), **facts))
    # ---- thaw ----
    try:
        th = thaw_message(fz)
        if type(th) is not cls or not (th == m) or th is fz or th is m or is_frozen(th):
            out.append(fail('thaw', f'thaw(freeze({m!r})) -> {th!r} ({type(th).__name__})', **facts))
        else:
            # the thawed message is fully functional and independent
            th.time = 12345
            if fz.time == 12345 and m.time != 12345:
                out.append(fail('thaw-aliasing', 'assigning on the thawed message changed the frozen one', **facts))
            th2 = thaw_message(fz)
            if th2 is th or th2.time == 12345 and m.time != 12345:
                out.append(fail('thaw-aliasing', 'two thaws of one frozen message share state', **facts))
            rp = repr(th2)
            th2.copy(time=1)
            th2.bytes()
            del rp
        t2 = thaw_message(m)
        if t2 is m or type(t2) is not cls or not (t2 == m):
            out.append(fail('thaw-nonfrozen', f'thaw of a non-frozen message -> {t2!r}', **facts))
    except Exception as exc:  # noqa: BLE001
        out.append(fail('thaw-raises', f'{m!r}: {exc!r}', exc=exc_sig(exc), **facts))
    return out


def check_none():
    out = []
    for name, fn in (('freeze', freeze_message), ('thaw', thaw_message)):
        try:
            if fn(None) is not None:
                out.append(fail('none', f'{name}_message(None) is not None', fn=name))
        except Exception as exc:  # noqa: BLE001
            out.append(fail('none', f'{name}_message(None): {exc!r}', fn=name, exc=exc_sig(exc)))
    return out


def check_subclass():
    """Objects of a user's subclass of a message class ARE messages of that class: they copy, freeze and thaw like it."""
    from mido.frozen import FrozenMessage, FrozenMetaMessage, FrozenUnknownMetaMessage, freeze_message, thaw_message

    class Note(mido.Message):
        def is_loud(self):
            return self.velocity > 100

    class Lyric(mido.MetaMessage):
        pass

    class Vendor(mido.UnknownMetaMessage):
        pass

    class Key(FrozenMessage):
        pass
    out = []
    for obj, frozen_cls, plain_cls in ((Note('note_on', note=61, velocity=120, time=3), FrozenMessage, mido.Message),
                                       (Lyric('lyrics', text='la', time=2), FrozenMetaMessage, mido.MetaMessage),
                                       (Vendor(0x60, data=(1, 2), time=1), FrozenUnknownMetaMessage, mido.UnknownMetaMessage)):
        name = type(obj).__name__
        try:
            fz = freeze_message(obj)
            if not isinstance(fz, frozen_cls) or not (fz == obj) or hash(fz) != hash(freeze_message(obj.copy())):
                out.append(fail('subclass-freeze', f'freeze_message({name} instance) -> {fz!r} ({type(fz).__name__})', cls=name))
            th = thaw_message(fz)
            if not isinstance(th, plain_cls) or isinstance(th, frozen_cls) or not (th == obj):
                out.append(fail('subclass-thaw', f'thaw(freeze({name} instance)) -> {th!r} ({type(th).__name__})', cls=name))
            th2 = thaw_message(obj)
            if th2 is obj or not (th2 == obj) or not isinstance(th2, plain_cls):
                out.append(fail('subclass-thaw', f'thaw_message({name} instance) -> {th2!r}', cls=name))
            cp = obj.copy(time=9)
            if not isinstance(cp, plain_cls) or cp.time != 9 or obj.time == 9:
                out.append(fail('subclass-copy', f'{name}.copy(time=9) -> {cp!r}', cls=name))
        except Exception as exc:  # noqa: BLE001
            out.append(fail('subclass-raises', f'{name}: {exc!r}', exc=exc_sig(exc), cls=name))
    try:
        k = Key('note_on', note=5)
        if freeze_message(k) is not k or not (thaw_message(k) == k) or isinstance(thaw_message(k), FrozenMessage):
            out.append(fail('subclass-freeze', 'a subclass of FrozenMessage is not treated as frozen', cls='Key'))
    except Exception as exc:  # noqa: BLE001
        out.append(fail('subclass-raises', f'Key: {exc!r}', exc=exc_sig(exc), cls='Key'))
    return out


def run_case(case):
    if case.get('kind') == 'none':
        return check_none()
    if case.get('kind') == 'subclass':
        return check_subclass()
    return check_case(case)


def nontrivial(case):
    return bool(case.get('valid_ov') or case.get('invalid_ov') or case.get('assign'))


def _kf_unhashable(case, f):
    return (case.get('msg', {}).get('type') == 'sequencer_specific' and case.get('seq_list')
            and f['clause'] == 'hash-raises')


KNOWN = {'KF-C15-b': _kf_unhashable}


# ---- generation --------------------------------------------------------------------------------------------------

def _valid_value(d, name, draw):
    t = d['type']
    if name == 'time':
        # (a Fraction is a real number too - round 13: a copy(time=...) fast path testing for int and float only)
        return draw(st.sampled_from([0, 1, 5, 2.5, -1, 2 ** 40, T('fraction', [1, 3]), T('fraction', [7, 2])]))
    if t == 'unknown_meta':
        return {'type_byte': draw(st.sampled_from(S.UNKNOWN_TYPE_BYTES)),
                'data': T('tuple', draw(st.lists(st.integers(0, 255), max_size=4)))}[name]
    if M.is_meta(d):
        v = draw(S.meta_dict(types=[t], eot=True))[name]
        if name == 'data':
            return T('tuple', v)
        return T('float', v) if isinstance(v, float) else v
    if name == 'data':
        return draw(st.sampled_from([[], [1, 2], T('tuple', [3]), T('bytes', [4, 5]), T('gen', [6, 7]), T('range', [0, 3])]))
    return draw(S.attr_value(name))


def _invalid_value(d, name, draw):
    t = d['type']
    if name == 'time':
        return draw(st.sampled_from(['1', None, [1]]))
    if M.is_meta(d):
        if (t, name) in M.INT_RANGES:
            lo, hi = M.INT_RANGES[(t, name)]
            return draw(st.sampled_from([lo - 1, hi + 1 if name != 'hours' else 256, T('float', 1.5), '1', None]))
        if t in M.TEXT_TYPES:
            return draw(st.sampled_from([1, None, T('bytes', [97])]))
        if name == 'denominator':
            return draw(st.sampled_from([0, 3, 6, -4, 2 ** 256, T('float', 4.0)]))
        if name == 'key':
            return draw(st.sampled_from(['H', '', 1, None]))
        if name == 'frame_rate':
            return draw(st.sampled_from([23, '24', None]))
        return None
    if name == 'data':
        return draw(st.sampled_from([[128], [-1], 3, None, 'abc', [1.5], T('gen', [1, 200])]))
    lo, hi = R.RANGES[name]
    return draw(st.sampled_from([lo - 1, hi + 1, T('float', float(lo)), T('float', 1.5), '1', None, 2 ** 70]))


@st.composite
def cases(draw):
    d = draw(st.one_of(S.msg_dict(time=st.sampled_from([0, 1, 7, 2.5, -3]), max_sysex=6),
                       S.meta_dict(time=st.sampled_from([0, 1, 7, 480]), eot=True),
                       S.unknown_meta_dict(time=st.sampled_from([0, 3, 480]))))
    names = [n for n in d if n != 'type']
    valid_ov = []
    for _ in range(draw(st.integers(0, 3))):
        ks = draw(st.lists(st.sampled_from(names), min_size=1, max_size=3, unique=True))
        ov = {k: _valid_value(d, k, draw) for k in ks}
        if draw(st.integers(0, 3)) == 0:
            ov['type'] = d['type']
        valid_ov.append(ov)
    invalid_ov = []
    if d['type'] != 'unknown_meta':
        for _ in range(draw(st.integers(0, 3))):
            kind = draw(st.sampled_from(['value', 'value', 'unknown', 'type']))
            if kind == 'value':
                n = draw(st.sampled_from(names))
                v = _invalid_value(d, n, draw)
                if v is None and not (n == 'time' or M.is_meta(d) is False):
                    continue
                if d['type'] == 'sequencer_specific' and n == 'data':
                    continue
                invalid_ov.append({n: v})
            elif kind == 'unknown':
                invalid_ov.append({draw(st.sampled_from(['foo', 'bytes', 'pitchx', 'type_byte'])): 1})
            else:
                other = 'note_off' if d['type'] != 'note_off' else 'clock'
                if M.is_meta(d):
                    other = 'marker' if d['type'] != 'marker' else 'text'
                invalid_ov.append({'type': other})
    assign = []
    for _ in range(draw(st.integers(0, 4))):
        n = draw(st.sampled_from(names))
        if draw(st.integers(0, 3)) and not (d['type'] == 'sequencer_specific' and n == 'data'):
            v = _valid_value(d, n, draw)
        else:
            v = _invalid_value(d, n, draw) if d['type'] != 'unknown_meta' else _valid_value(d, n, draw)
        assign.append([draw(st.sampled_from(['orig', 'copy'])), [n, v]])
    return {'msg': d, 'valid_ov': valid_ov, 'invalid_ov': invalid_ov, 'assign': assign}


def hyp_shard(rec, shard):
    k, n = shard
    rec.hyp(cases(), n, seed_offset=k)


def main(ctx):
    n = 6400 if ctx.tier == 'quick' else 80000
    w = 8 if ctx.tier == 'quick' else 16
    ctx.check({'kind': 'none'})
    ctx.check({'kind': 'subclass'})
    ctx.pmap('hyp_shard', [(k, n // w) for k in range(w)])
    # every type once with defaults and once with edge values, all routes
    for t in R.ALL_TYPES:
        d = R.default_msg(t)
        if t == 'sysex':
            d['data'] = [1, 2, 3]
        ctx.check({'msg': d, 'valid_ov': [{'time': 3}], 'assign': [['copy', ['time', 9]]]})
        names = [n for n in d if n != 'type']
        inv = []
        for nm in names:
            if nm == 'data':
                inv += [{'data': v} for v in ([128], [-1], 3, None, 'abc', [1.5], T('gen', [1, 200]))]
            elif nm == 'time':
                inv += [{'time': v} for v in ('1', None, [1])]
            else:
                lo, hi = R.RANGES[nm]
                inv += [{nm: v} for v in (lo - 1, hi + 1, T('float', float(hi)), '1', None)]
        ctx.check({'msg': d, 'invalid_ov': inv + [{'foo': 1}, {'type': 'note_off' if t != 'note_off' else 'clock'}],
                   'valid_ov': [{'type': t}]})
    for t in M.META:
        d = M.default_meta(t)
        ctx.check({'msg': d, 'valid_ov': [{'time': 3}], 'assign': [['orig', ['time', 9]]]})
    ctx.check({'msg': {'type': 'unknown_meta', 'type_byte': 0x60, 'data': [1, 2], 'time': 4},
               'valid_ov': [{'time': 3}, {'data': T('tuple', [9])}], 'assign': [['copy', ['time', 9]]]})
    # recorded class: list-valued sequencer data (the default) is unhashable when frozen
    ctx.check({'msg': {'type': 'sequencer_specific', 'data': [], 'time': 0}, 'seq_list': True, 'valid_ov': [{'time': 1}]})
    ctx.check({'msg': {'type': 'sequencer_specific', 'data': [1, 2], 'time': 0}, 'seq_list': True,
               'valid_ov': [{'time': 1}]})
