"""C12 - merge_tracks keeps every event at its absolute time."""
from hypothesis import strategies as st

import mido
from lib import refmeta as M
from lib import refsmf as F
from lib.harness import exc_sig, fail

PID = 'C12'
LEVEL = 'exploration'
RULE = ('Hypothesis: 0-5 tracks of 0-10 uniquely tagged messages (Message, MetaMessage incl. set_tempo, '
        'UnknownMetaMessage, sysex), integer deltas biased to 0 (ties) and small values plus a few large ones, dyadic float '
        'deltas in a minority of cases, end_of_track missing / final / repeated / in the middle, skip_checks on/off, entry '
        'points merge_tracks and MidiFile.merged_track. Oracle: reference merge (absolute tick, then track index, then '
        'position; end_of_track canonicalised) compared message by message incl. time; result is a MidiTrack with exactly '
        'one end_of_track, last; total == max track total; inputs (list identity, length, every message\'s vars) unchanged; '
        'both skip_checks settings agree. Non-trivial = >= 2 non-empty tracks whose absolute times interleave with at least '
        'one cross-track tie; distinct by input structure.'
        ' Later additions: tracks as tuples / generators / one-shot iterators, frozen messages, 1500 tracks,'
        ' poking a returned track, and three in-place edits (add ticks; move a tick to the neighbour; change a'
        ' non-time attribute) each followed by merge_tracks and by MidiFile.merged_track on the same file object'
        ' (type 0 for half of the single-track files).')
ASSUMPTIONS = ['float deltas are dyadic so that the reference arithmetic is exact']


def tagged(kind, tag, time):
    if kind == 'note_on':
        return {'type': 'note_on', 'channel': tag % 16, 'note': tag % 128, 'velocity': (tag // 128) % 128, 'time': time}
    if kind == 'cc':
        return {'type': 'control_change', 'channel': tag % 16, 'control': tag % 128, 'value': 1, 'time': time}
    if kind == 'text':
        return {'type': 'text', 'text': f'm{tag}', 'time': time}
    if kind == 'tempo':
        return {'type': 'set_tempo', 'tempo': 1000 + tag, 'time': time}
    if kind == 'unknown':
        return {'type': 'unknown_meta', 'type_byte': 0x60, 'data': [tag % 256], 'time': time}
    if kind == 'sysex':
        return {'type': 'sysex', 'data': [tag % 128], 'time': time}
    if kind == 'eot':
        return {'type': 'end_of_track', 'time': time}
    if kind == 'name':
        return {'type': 'track_name', 'name': f'n{tag}', 'time': time}
    if kind in ('marker', 'lyrics', 'cue_marker', 'copyright', 'instrument_name', 'device_name'):
        attr = 'name' if kind.endswith('_name') else 'text'
        return {'type': kind, attr: f'{kind[0]}{tag}', 'time': time}
    if kind == 'seqnum':
        return {'type': 'sequence_number', 'number': tag % 65536, 'time': time}
    if kind == 'port':
        return {'type': 'midi_port', 'port': tag % 256, 'time': time}
    if kind == 'pitch':
        return {'type': 'pitchwheel', 'channel': tag % 16, 'pitch': (tag * 37) % 16384 - 8192, 'time': time}
    if kind == 'songsel':
        return {'type': 'song_select', 'song': tag % 128, 'time': time}
    raise KeyError(kind)


def snapshot(tracks):
    return [(id(tr), [(id(m), dict(vars(m))) for m in tr]) for tr in tracks]


def _same_loose(m, d):
    dd = dict(d)
    t = dd.pop('time')
    from mido.frozen import thaw_message
    why = M.same(thaw_message(m).copy(time=0), {**dd, 'time': 0})
    if why:
        return why
    if not (m.time == t):
        return f'time {m.time!r} != {t!r}'
    return None


def check_merge(case):
    tracks_d = case['tracks']
    tracks = [mido.MidiTrack([M.to_mido(d) for d in tr]) for tr in tracks_d]
    if case.get('frozen'):
        from mido.frozen import freeze_message
        k = case['frozen']
        tracks = [mido.MidiTrack([freeze_message(m) if (i + ti) % k == 0 else m for i, m in enumerate(tr)])
                  for ti, tr in enumerate(tracks)]
    before = snapshot(tracks)
    want = F.merge_model(tracks_d)
    out = []
    results = {}
    for skip in (False, True):
        try:
            if case.get('entry') == 'merged_track':
                # (a single track may live in a type 0 or a type 1 file: the merge is the same)
                mid = mido.MidiFile(type=0 if len(tracks) == 1 and len(tracks[0]) % 2 == 0 else 1, tracks=tracks)
                res = mid.merged_track
            else:
                cont = case.get('cont', 'list')
                arg = {'list': tracks, 'tuple': tuple(tracks), 'gen': (t for t in tracks),
                       'plain': [list(t) for t in tracks], 'iters': [iter(t) for t in tracks],
                       'gens': [(m for m in t) for t in tracks]}[cont]
                res = mido.merge_tracks(arg, skip_checks=skip)
        except Exception as exc:  # noqa: BLE001
            return [fail('raises', f'skip_checks={skip}: {exc!r}', exc=exc_sig(exc))]
        results[skip] = res
        if type(res) is not mido.MidiTrack:
            out.append(fail('result-class', f'{type(res).__name__}'))
        eots = [i for i, m in enumerate(res) if m.type == 'end_of_track']
        if eots != [len(res) - 1]:
            out.append(fail('end-of-track', f'end_of_track at positions {eots} of {len(res)}'))
        total = sum(m.time for m in res)
        longest = max([sum(d['time'] for d in tr) for tr in tracks_d] or [0])
        if not (total == longest):
            out.append(fail('duration', f'sum of deltas {total!r} != longest track {longest!r}'))
        if len(res) != len(want):
            out.append(fail('message-count', f'{len(res)} messages, expected {len(want)}: {list(res)[:6]!r}'))
        else:
            for i, (m, d) in enumerate(zip(res, want)):
                why = _same_loose(m, d)
                if why:
                    out.append(fail('order-or-time', f'skip_checks={skip} position {i}: {why}; got {m!r} expected {d}; '
                                                      f'whole result {list(res)!r}'[:900], type=d['type']))
                    break
        if snapshot(tracks) != before:
            out.append(fail('input-modified', 'input tracks or messages changed'))
            break
    if len(results) == 2 and list(results[False]) != list(results[True]):
        out.append(fail('skip-checks-disagree', 'results differ between skip_checks settings'))
    # the returned track belongs to the caller: editing it must not influence any later merge
    if not out and case.get('poke') and not case.get('frozen') and results.get(False) is not None and len(results[False]):
        res = results[False]
        res[-1].time = res[-1].time + 480
        res[0].time = res[0].time + 7
        try:
            again = mido.merge_tracks(tracks)
            if len(again) != len(want) or any(_same_loose(m, d) for m, d in zip(again, want)):
                out.append(fail('result-shared', 'a merge done after the caller edited an earlier result differs: '
                                                 f'{list(again)[-2:]!r}'))
            empty = mido.merge_tracks([])
            if len(empty) != 1 or empty[0].time != 0:
                out.append(fail('result-shared', f'merge_tracks([]) after poking an earlier result: {list(empty)!r}'))
        except Exception as exc:  # noqa: BLE001
            out.append(fail('raises', f'merge after poking a result: {exc!r}', exc=exc_sig(exc)))
    # merging again after an edit of the inputs reflects the edit (nothing is remembered between calls)
    edit = case.get('edit')
    if not out and edit and not case.get('frozen') and tracks_d and tracks_d[edit[0] % len(tracks_d)]:
        ti = edit[0] % len(tracks_d)
        mi = edit[1] % len(tracks_d[ti])
        edited = [[dict(d) for d in tr] for tr in tracks_d]
        via_file = mido.MidiFile(type=1, tracks=tracks) if case.get('entry') == 'merged_track' else None
        if via_file is not None:
            via_file.merged_track       # an observation before the edits

        def edit_time():
            tracks[ti][mi].time = tracks[ti][mi].time + edit[2]
            edited[ti][mi]['time'] += edit[2]
            return f'adding {edit[2]} ticks to track {ti} message {mi}'

        def edit_move():
            # ticks move from one message of the track to its neighbour: message count and track duration stay
            mj = (mi + 1) % len(tracks_d[ti])
            if mj == mi or edited[ti][mi]['time'] < 1:
                return None
            tracks[ti][mi].time = tracks[ti][mi].time - 1
            tracks[ti][mj].time = tracks[ti][mj].time + 1
            edited[ti][mi]['time'] -= 1
            edited[ti][mj]['time'] += 1
            return f'moving one tick from message {mi} to message {mj} of track {ti}'

        def edit_value():
            for name, val in (('note', 99), ('control', 99), ('tempo', 123456), ('text', 'edited'), ('program', 99)):
                if name in edited[ti][mi] and edited[ti][mi][name] != val:
                    setattr(tracks[ti][mi], name, val)
                    edited[ti][mi][name] = val
                    return f'setting {name} of track {ti} message {mi}'
            return None
        for do in (edit_time, edit_move, edit_value):
            try:
                what = do()
                if what is None:
                    continue
                want2 = F.merge_model(edited)
                merges = [('merge_tracks', mido.merge_tracks(tracks))]
                if via_file is not None:
                    merges.append(('MidiFile.merged_track', via_file.merged_track))
                for how, res2 in merges:
                    if len(res2) != len(want2) or any(_same_loose(m, d) for m, d in zip(res2, want2)):
                        out.append(fail('stale-merge', f'{how} after {what} does not reflect the edit', how=how))
            except Exception as exc:  # noqa: BLE001
                out.append(fail('raises', f'merge after an edit: {exc!r}', exc=exc_sig(exc)))
            if out:
                break
    return out


def check_alias(case):
    """The same message OBJECT occurs several times in the input (a pattern repeated with `MidiTrack([...]) * n`, one
    message appended to two tracks): every occurrence is an event of its own at its own absolute tick (round 14:
    absolute times kept in a side table keyed by id(msg))."""
    deltas, reps, extra = case['deltas'], case['reps'], case.get('extra', 0)
    objs = [mido.Message('note_on', note=10 + i, time=d) for i, d in enumerate(deltas)]
    first = mido.MidiTrack(objs) * reps
    second = mido.MidiTrack([objs[0]] * extra + [mido.MetaMessage('end_of_track', time=1)])
    tracks = [first, second]
    want = []
    for ti, tr in enumerate(tracks):
        now = 0
        for pi, m in enumerate(tr):
            now += m.time
            if m.type != 'end_of_track':
                want.append((now, ti, pi, m.note))
    want.sort(key=lambda w: w[0])
    total = max(sum(m.time for m in tr) for tr in tracks)
    before = [[dict(vars(m)) for m in tr] for tr in tracks]
    out = []
    for entry in ('merge_tracks', 'merged_track'):
        try:
            merged = mido.merge_tracks(tracks) if entry == 'merge_tracks' else mido.MidiFile(type=1, tracks=tracks).merged_track
        except Exception as exc:  # noqa: BLE001
            out.append(fail('raises', f'{entry} with shared message objects: {exc!r}', exc=exc_sig(exc)))
            continue
        now, got = 0, []
        for m in merged:
            now += m.time
            if m.type != 'end_of_track':
                got.append((now, m.note))
        if got != [(w[0], w[3]) for w in want]:
            out.append(fail('abs-time', f'{entry}: shared message objects {case}: (tick, note) {got[:12]} expected '
                                        f'{[(w[0], w[3]) for w in want][:12]}', entry=entry, alias='True'))
        elif now != total or merged[-1].type != 'end_of_track':
            out.append(fail('duration', f'{entry}: shared message objects {case}: duration {now}, expected {total}',
                            entry=entry, alias='True'))
    if before != [[dict(vars(m)) for m in tr] for tr in tracks]:
        out.append(fail('input-modified', f'shared message objects {case}: inputs changed'))
    return out


def run_case(case):
    if 'deltas' in case:
        return check_alias(case)
    return check_merge(case)


def nontrivial(case):
    if 'deltas' in case:
        return case['reps'] > 1
    tr = [t for t in case['tracks'] if any(d['type'] != 'end_of_track' for d in t)]
    if len(tr) < 2:
        return False
    seen = {}
    tie = False
    for ti, t in enumerate(case['tracks']):
        now = 0
        for d in t:
            now += d['time']
            if d['type'] == 'end_of_track':
                continue
            if now in seen and seen[now] != ti:
                tie = True
            seen.setdefault(now, ti)
    # interleave: some track has an event strictly between two events of another track
    firsts = []
    for t in tr:
        now = 0
        ab = []
        for d in t:
            now += d['time']
            ab.append(now)
        firsts.append((min(ab), max(ab)))
    inter = any(a[0] < b[1] and b[0] < a[1] for i, a in enumerate(firsts) for b in firsts[i + 1:])
    return tie and inter


@st.composite
def cases(draw):
    nt = draw(st.integers(0, 5))
    use_float = draw(st.integers(0, 5)) == 0
    if use_float:
        tm = st.sampled_from([0, 0, 0.5, 0.25, 1, 1.5, 2, 3.75, 0.0])
    else:
        tm = st.one_of(st.sampled_from([0, 0, 0, 1, 1, 2, 3, 10]), st.integers(0, 8), st.sampled_from([480, 2 ** 28, 10 ** 12]))
    tag = 0
    tracks = []
    for _ in range(nt):
        n = draw(st.integers(0, 10))
        tr = []
        for _ in range(n):
            kind = draw(st.sampled_from(['note_on', 'note_on', 'cc', 'text', 'tempo', 'tempo', 'unknown', 'sysex', 'eot',
                                         'name', 'marker', 'lyrics', 'cue_marker', 'copyright', 'instrument_name',
                                         'device_name', 'seqnum', 'port', 'pitch', 'songsel']))
            tr.append(tagged(kind, tag, draw(tm)))
            tag += 1
        tail = draw(st.sampled_from(['none', 'eot0', 'eot0', 'eot-delta', 'two']))
        if tail in ('eot0', 'two'):
            tr.append(tagged('eot', 0, 0))
        if tail in ('eot-delta', 'two'):
            tr.append(tagged('eot', 0, draw(tm)))
        tracks.append(tr)
    return {'tracks': tracks, 'entry': draw(st.sampled_from(['merge_tracks', 'merge_tracks', 'merged_track'])),
            'cont': draw(st.sampled_from(['list', 'list', 'tuple', 'gen', 'plain', 'iters', 'gens'])),
            'poke': draw(st.booleans()),
            'frozen': draw(st.sampled_from([0, 0, 0, 1, 2, 3])),
            'edit': draw(st.one_of(st.none(), st.tuples(st.integers(0, 4), st.integers(0, 9), st.sampled_from([1, 5, 480])).map(list)))}


def hyp_shard(rec, shard):
    k, n = shard
    rec.hyp(cases(), n, label='merge', seed_offset=k)


def main(ctx):
    n = 8000 if ctx.tier == 'quick' else 100000
    w = 8 if ctx.tier == 'quick' else 16
    ctx.pmap('hyp_shard', [(k, n // w) for k in range(w)])
    # single-track and degenerate shapes, enumerated
    for tail in ([], [tagged('eot', 0, 0)], [tagged('eot', 0, 5)], [tagged('eot', 0, 0), tagged('eot', 0, 3)]):
        for body in ([], [tagged('note_on', 1, 2)], [tagged('note_on', 1, 2), tagged('eot', 0, 4), tagged('cc', 2, 1)],
                     [tagged('eot', 0, 7), tagged('tempo', 3, 0), tagged('note_on', 4, 0)]):
            for ntr in (1, 2):
                ctx.check({'tracks': [body + tail] * ntr, 'entry': 'merge_tracks'})
    ctx.check({'tracks': [], 'entry': 'merge_tracks'})
    for deltas in ([120, 120], [0, 5], [7], [3, 0, 0], [1, 2, 3, 4]):
        for reps in (1, 2, 3, 5):
            for extra in (0, 1, 3):
                ctx.check({'deltas': deltas, 'reps': reps, 'extra': extra}, classes=('shared-objects',),
                          sample=(reps == 3 and extra == 1))
    wide = [[tagged('note_on', i, i % 5), tagged('eot', 0, i % 3)] for i in range(1500)]
    ctx.check({'tracks': wide, 'entry': 'merge_tracks'}, sample=False)
    ctx.check({'tracks': wide, 'entry': 'merged_track'}, sample=False)
