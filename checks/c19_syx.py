"""C19 - SYX files round-trip sysex messages."""
import os
import tempfile

from hypothesis import strategies as st

import mido
from lib import refmidi as R
from lib import strategies as S
from lib.harness import exc_sig, fail

PID = 'C19'
LEVEL = 'exploration'
RULE = ('Hypothesis: lists of 0-8 messages - sysex with payload lengths 0,1,2,..,3000 (boundary biased: 25/26/27, 51/52/53, '
        '126..129) and content 0..127, interleaved with non-sysex messages of all types - written in both formats and read '
        'back; hand-written text files (my own formatter: upper/lower-case digits, separator runs from the six ASCII '
        'whitespace characters, leading/trailing whitespace) and binary files that start with a sysex and contain other '
        'complete messages; invalid texts (non-hex character, odd digit count, one-digit tokens, 0x prefixes, signs, '
        'underscores, whitespace inside a pair). Oracle: read(write(L)) is exactly the sysex messages of L, in order, equal '
        'data, [] when none; hand-written files read to the expected sysex list; invalid text raises ValueError. '
        'Non-trivial = >= 2 sysex messages of different length with a non-sysex message between them; distinct by hash.'
        ' Later additions: three files that stop inside a message are read before every hand-written file, text files'
        ' begin with stray data bytes / F7, the file is read again after the first result was edited.')
ASSUMPTIONS = ['files live in a TemporaryDirectory that is removed at the end of every case']

WS = [' ', '\t', '\n', '\r', '\x0b', '\x0c']


def _expect(dicts):
    return [tuple(d['data']) for d in dicts if d['type'] == 'sysex']


def _compare(got, want, what):
    if len(got) != len(want):
        return [fail('count', f'{what}: read {len(got)} sysex messages, expected {len(want)}')]
    for i, (m, w) in enumerate(zip(got, want)):
        if type(m) is not mido.Message or m.type != 'sysex' or tuple(m.data) != w:
            return [fail('data', f'{what}: message {i} is {str(m)[:120]}, expected data {w[:16]} (len {len(w)})')]
    return []


def check_roundtrip(dicts, fmt, stale=None):
    msgs = [mido.Message(d['type'], **{k: v for k, v in d.items() if k != 'type'}) for d in dicts]
    with tempfile.TemporaryDirectory(prefix='c19_') as tmp:
        path = os.path.join(tmp, 'x.syx')
        if stale is not None and stale != 'relative':
            # the path already holds an older, longer bank in the other format, and it has been read once
            try:
                mido.write_syx_file(path, [mido.Message('sysex', data=[1, 2, 3] * 40), mido.Message('sysex', data=[9])],
                                    plaintext=(stale == 'text'))
                mido.read_syx_file(path)
            except Exception as exc:  # noqa: BLE001
                return [fail('write-raises', f'stale bank: {exc!r}', exc=exc_sig(exc), fmt=fmt)]
        if stale == 'relative':
            # a relative file name, resolved against the current working directory
            old_cwd = os.getcwd()
            os.chdir(tmp)
            try:
                mido.write_syx_file('rel.syx', msgs, plaintext=(fmt == 'text'))
                got = mido.read_syx_file('rel.syx')
            except Exception as exc:  # noqa: BLE001
                return [fail('read-raises', f'{fmt} (relative path): {exc!r}', exc=exc_sig(exc), fmt=fmt)]
            finally:
                os.chdir(old_cwd)
            return _compare(got, _expect(dicts), f'round trip ({fmt}, relative path)')
        # the file name as str, as pathlib.Path or as bytes - whatever open() takes (chosen by the number of messages)
        if len(msgs) % 3 == 1:
            import pathlib
            path = pathlib.Path(path)
        elif len(msgs) % 3 == 2:
            path = os.fsencode(path)
        try:
            mido.write_syx_file(path, msgs, plaintext=(fmt == 'text'))
        except Exception as exc:  # noqa: BLE001
            return [fail('write-raises', f'{fmt}: {exc!r}', exc=exc_sig(exc), fmt=fmt)]
        try:
            got = mido.read_syx_file(path)
        except Exception as exc:  # noqa: BLE001
            size = os.path.getsize(path) if os.path.exists(path) else 'no file'
            return [fail('read-raises', f'{fmt}: {exc!r} (file: {size})', exc=exc_sig(exc), fmt=fmt)]
    if not isinstance(got, list):
        return [fail('result-type', f'{type(got).__name__}')]
    return _compare(got, _expect(dicts), f'round trip ({fmt})')


def check_file(raw, want, invalid):
    with tempfile.TemporaryDirectory(prefix='c19_') as tmp:
        path = os.path.join(tmp, 'y.syx')
        with open(path, 'wb') as f:
            f.write(bytes(raw))
        # history: files that end in the middle of a message were read earlier (round 13: one parser shared by all calls);
        # what a file yields depends on that file alone
        for k, poison in enumerate((b'\xf0\x01\xf7\x90\x40', b'\xf0\x7e\x05', b'F0 7E 05')):
            ppath = os.path.join(tmp, f'p{k}.syx')
            with open(ppath, 'wb') as f:
                f.write(poison)
            try:
                mido.read_syx_file(ppath)
            except Exception:  # noqa: BLE001
                pass
        try:
            got = mido.read_syx_file(path)
        except ValueError as exc:
            if invalid:
                return []
            return [fail('read-raises', f'{bytes(raw)[:80]!r}: {exc!r}', exc=exc_sig(exc))]
        except Exception as exc:  # noqa: BLE001
            return [fail('read-wrong-exception', f'{bytes(raw)[:80]!r}: {exc!r}', exc=exc_sig(exc))]
        else:
            # the messages returned belong to the caller: reading the same file again after editing them gives the file's
            # contents again (no interning of results across calls)
            again = None
            if not invalid and got:
                try:
                    snap = [m.copy() for m in got]
                    for m in got:
                        m.time = 8180
                        m.data += (1,)
                    again = mido.read_syx_file(path)
                    got = snap
                except Exception as exc:  # noqa: BLE001
                    return [fail('read-raises', f'second read of {bytes(raw)[:80]!r}: {exc!r}', exc=exc_sig(exc))]
    if invalid:
        return [fail('invalid-text-accepted', f'{bytes(raw)[:80]!r} -> {got!r}'[:400])]
    out = _compare(got, [tuple(w) for w in want], 'hand-written file')
    if again is not None:
        out += _compare(again, [tuple(w) for w in want], 'hand-written file read again after editing the first result')
    return out


def layout(payloads, style):
    """A plain-text SYX file for the given sysex payloads in one of several legal whitespace layouts."""
    stream = [b for p in payloads for b in [0xF0] + list(p) + [0xF7]]
    if style == 'hexdump-crlf':            # 16 bytes per line, DOS line ends
        return '\r\n'.join(' '.join(f'{b:02X}' for b in stream[i:i + 16]) for i in range(0, len(stream), 16)) + '\r\n'
    if style == 'tab-indented':            # 8 bytes per line, continuation lines indented with a tab
        return '\n\t'.join(' '.join(f'{b:02x}' for b in stream[i:i + 8]) for i in range(0, len(stream), 8)) + '\n'
    if style == 'one-per-line':
        return '\n'.join(f'{b:02X}' for b in stream) + '\n'
    if style == 'no-separator':
        return ''.join(f'{b:02X}' for b in stream)
    if style == 'double-space':
        return '  '.join(f'{b:02X}' for b in stream)
    raise KeyError(style)


def check_layout(case):
    n, size, style = case['n'], case['size'], case['style']
    payloads = [[(i * 7 + k) % 128 for k in range(size + i % 3)] for i in range(n)]
    text = layout(payloads, style)
    return check_file(list(text.encode('ascii')), [tuple(p) for p in payloads], False)


def check_fifo(case):
    """The file need not be a regular file: a named pipe with a writer at the other end (a dump piped from a tool)."""
    import threading
    dicts, fmt = case['msgs'], case['fmt']
    msgs = [mido.Message(d['type'], **{k: v for k, v in d.items() if k != 'type'}) for d in dicts]
    if not hasattr(os, 'mkfifo'):
        return []
    with tempfile.TemporaryDirectory(prefix='c19_') as tmp:
        path = os.path.join(tmp, 'pipe.syx')
        try:
            os.mkfifo(path)
        except OSError:
            return []           # no named pipes here: nothing is claimed
        box = {}

        def writer():
            try:
                mido.write_syx_file(path, msgs, plaintext=(fmt == 'text'))
            except Exception as exc:  # noqa: BLE001
                box['w'] = exc

        def reader():
            try:
                box['got'] = mido.read_syx_file(path)
            except Exception as exc:  # noqa: BLE001
                box['r'] = exc
        tw, tr = threading.Thread(target=writer, daemon=True), threading.Thread(target=reader, daemon=True)
        tw.start()
        tr.start()
        tw.join(20)
        tr.join(20)
        if tw.is_alive() or tr.is_alive():
            # unblock whichever side is still waiting for a partner, then report
            try:
                fd = os.open(path, os.O_RDWR | os.O_NONBLOCK)
                os.close(fd)
            except OSError:
                pass
            return [fail('fifo-hangs', f'{fmt}: write/read through a named pipe did not finish within 20 s', fmt=fmt)]
        if 'w' in box or 'r' in box:
            exc = box.get('w') or box.get('r')
            return [fail('read-raises', f'{fmt} through a named pipe: {exc!r}', exc=exc_sig(exc), fmt=fmt)]
    return _compare(box['got'], _expect(dicts), f'round trip ({fmt}, named pipe)')


def run_case(case):
    k = case['kind']
    if k == 'layout':
        return check_layout(case)
    if k == 'fifo':
        return check_fifo(case)
    if k == 'roundtrip':
        return check_roundtrip(case['msgs'], case['fmt'], case.get('stale'))
    return check_file(case['raw'], case.get('want', []), case.get('invalid', False))


def nontrivial(case):
    if case['kind'] != 'roundtrip':
        return True
    ds = case['msgs']
    idx = [i for i, d in enumerate(ds) if d['type'] == 'sysex']
    return any(len(ds[a]['data']) != len(ds[b]['data']) and b - a > 1 for a, b in zip(idx, idx[1:]))


SIZES = st.one_of(st.sampled_from([0, 1, 2, 3, 25, 26, 27, 51, 52, 53, 79, 80, 81, 126, 127, 128, 129, 1000, 3000]),
                  st.integers(0, 300), st.integers(0, 3000))


def sysex_d(cap=3000):
    # long payloads are produced by a formula from three drawn numbers (element-wise drawing of thousands of bytes
    # makes Hypothesis slow without adding anything: content does not steer the SYX reader)
    small = st.lists(st.one_of(st.sampled_from([0, 1, 0x7F, 0x40]), st.integers(0, 127)), max_size=6)
    return st.tuples(SIZES.map(lambda n: n if n <= cap else n % (cap + 1)), st.integers(0, 127), st.integers(0, 127), small).map(
        lambda z: {'type': 'sysex', 'data': (z[3] + [(z[1] * i + z[2]) % 128 for i in range(z[0])])[:max(z[0], len(z[3]) if z[0] < 6 else z[0])][:z[0]] if z[0] else [],
                   'time': 0})


def msg_list(cap=3000):
    other = S.msg_dict(types=[t for t in R.ALL_TYPES if t != 'sysex'], time=st.just(0))
    return st.lists(st.one_of(sysex_d(cap), sysex_d(cap), other), max_size=8)


@st.composite
def text_files(draw):
    ds = draw(msg_list(cap=130))
    parts = [''.join(draw(st.lists(st.sampled_from(WS), max_size=3)))]
    if not parts[0]:
        pass
    data = [b for d in ds for b in R.ref_encode(d)]
    if draw(st.integers(0, 2)) == 0:
        data = draw(st.lists(st.integers(0, 127), min_size=1, max_size=3)) + draw(st.sampled_from([[], [0xF7]])) + data
    lower = draw(st.booleans())
    for b in data:
        h = '%02x' % b if (lower or draw(st.integers(0, 3)) == 0) else '%02X' % b
        parts.append(h)
        parts.append(''.join(draw(st.lists(st.sampled_from(WS), min_size=1, max_size=3))))
    raw = ''.join(parts).encode('ascii')
    if raw[:1] == b'\xf0':
        raw = b' ' + raw
    return {'kind': 'file', 'raw': list(raw), 'want': [list(d['data']) for d in ds if d['type'] == 'sysex']}


@st.composite
def bin_files(draw):
    first = draw(sysex_d())
    ds = [first] + draw(msg_list())
    data = [b for d in ds for b in R.ref_encode(d)]
    return {'kind': 'file', 'raw': data, 'want': [list(d['data']) for d in ds if d['type'] == 'sysex']}


@st.composite
def invalid_texts(draw):
    ds = draw(st.lists(sysex_d(), min_size=1, max_size=2))
    toks = ['%02X' % b for d in ds for b in R.ref_encode(d)][:40]
    kind = draw(st.sampled_from(['nonhex', 'odd', 'onedigit', '0x', 'sign', 'underscore', 'split', 'word', 'threedigit']))
    pos = draw(st.integers(0, len(toks) - 1))
    if kind == 'nonhex':
        toks[pos] = draw(st.sampled_from(['G0', '0G', 'ZZ', '1-', '..']))
    elif kind == 'odd':
        toks.append('F')
    elif kind == 'onedigit':
        toks[pos] = draw(st.sampled_from(['1', '0', 'F', '7']))
        if pos + 1 < len(toks) and draw(st.booleans()):
            toks[pos + 1] = '2'
    elif kind == '0x':
        toks[pos] = '0x' + toks[pos]
    elif kind == 'sign':
        toks[pos] = draw(st.sampled_from(['+1', '-1', '+F']))
    elif kind == 'underscore':
        toks[pos] = draw(st.sampled_from(['0_2', '1_', '_1']))
    elif kind == 'split':
        toks[pos] = toks[pos][0] + ' ' + toks[pos][1]
        if len(toks) % 1 == 0:
            toks.append('0')        # keep the digit count odd overall so that regrouping cannot make it valid
    elif kind == 'word':
        toks = ['NOT', 'HEX']
    elif kind == 'threedigit':
        toks[pos] = '0' + toks[pos]
    sep = draw(st.sampled_from([' ', '\n', ' \t']))
    raw = sep.join(toks).encode('ascii')
    return {'kind': 'file', 'raw': list(raw), 'invalid': True}


def hyp_shard(rec, shard):
    block, k, n = shard
    if block == 'rt':
        strat = st.fixed_dictionaries({'kind': st.just('roundtrip'), 'msgs': msg_list(),
                                       'fmt': st.sampled_from(['bin', 'text']),
                                       'stale': st.sampled_from([None, None, 'bin', 'text', 'relative'])})
        rec.hyp(strat, n, seed_offset=k)
    elif block == 'text':
        rec.hyp(text_files(), n, seed_offset=100 + k)
    elif block == 'bin':
        rec.hyp(bin_files(), n, seed_offset=200 + k)
    else:
        rec.hyp(invalid_texts(), n, seed_offset=300 + k)


def main(ctx):
    n = 250 if ctx.tier == 'quick' else 8000
    ctx.pmap('hyp_shard', [('rt', k, n) for k in range(4)] + [('text', k, n // 2) for k in range(2)] +
             [('bin', k, n // 2) for k in range(2)] + [('invalid', k, n // 2) for k in range(2)])
    # large hand-formatted text files in layouts other than the writer's (sizes around powers of two of characters)
    for style in ('hexdump-crlf', 'tab-indented', 'one-per-line', 'double-space'):
        for n, size in ((3, 5), (40, 1000), (300, 1000)):
            ctx.check({'kind': 'layout', 'n': n, 'size': size, 'style': style}, classes=('layout',), sample=(n == 3))
    # text files that begin with stray data bytes or a stray end marker (other data is dropped on reading); in text_files
    # also prepended at random.  After the unfinished files check_file reads first, nothing of them may show here.
    for text, want in (('01 02 F7 F0 03 F7', [[3]]), ('7F\nF7 F0 04 05 F7', [[4, 5]]), ('F7', []), ('00', []),
                       ('05 F7 F0 F7', [[]]), ('40 40 F0 01 F7 02 F7', [[1]])):
        ctx.check({'kind': 'file', 'raw': list(text.encode('ascii')), 'want': want}, classes=('stray-start',))
    for fmt in ('bin', 'text'):
        ctx.check({'kind': 'fifo', 'fmt': fmt, 'msgs': [{'type': 'sysex', 'data': [1, 2, 3], 'time': 0},
                                                      {'type': 'note_on', 'channel': 0, 'note': 1, 'velocity': 2, 'time': 0},
                                                      {'type': 'sysex', 'data': list(range(100)), 'time': 0}]},
                  classes=('named-pipe',), sample=False)
    for fmt in ('bin', 'text'):
        many = [{'type': 'sysex', 'data': [i % 128, (i // 128) % 128], 'time': 0} for i in range(1500)]
        ctx.check({'kind': 'roundtrip', 'msgs': many, 'fmt': fmt}, sample=False)
        ctx.check({'kind': 'roundtrip', 'msgs': [], 'fmt': fmt})
        huge = {'type': 'sysex', 'data': [(i * 31) % 128 for i in range(100000)], 'time': 0}
        ctx.check({'kind': 'roundtrip', 'msgs': [huge, {'type': 'sysex', 'data': [1], 'time': 0}], 'fmt': fmt}, sample=False)
        # a dump of well over 1 MiB of text (many medium messages, and one long one)
        bank = [{'type': 'sysex', 'data': [(i + j) % 128 for j in range(4093)], 'time': 0} for i in range(100)]
        ctx.check({'kind': 'roundtrip', 'msgs': bank, 'fmt': fmt}, sample=False)
        ctx.check({'kind': 'roundtrip', 'msgs': [{'type': 'sysex', 'data': [(i * 7) % 128 for i in range(400001)], 'time': 0},
                                                 {'type': 'sysex', 'data': [2], 'time': 0}], 'fmt': fmt}, sample=False)
        for ln in range(0, 8):
            one = {'type': 'sysex', 'data': list(range(ln)), 'time': 0}
            ctx.check({'kind': 'roundtrip', 'msgs': [one], 'fmt': fmt}, sample=False)
            ctx.check({'kind': 'roundtrip', 'msgs': [R.default_msg('clock'), one], 'fmt': fmt}, sample=False)
            ctx.check({'kind': 'roundtrip', 'msgs': [one, one], 'fmt': fmt}, sample=False)
        for stale in ('bin', 'text'):
            ctx.check({'kind': 'roundtrip', 'msgs': [], 'fmt': fmt, 'stale': stale})
            ctx.check({'kind': 'roundtrip', 'msgs': [R.default_msg('note_on')], 'fmt': fmt, 'stale': stale})
            ctx.check({'kind': 'roundtrip', 'msgs': [{'type': 'sysex', 'data': [5], 'time': 0}], 'fmt': fmt, 'stale': stale})
        ctx.check({'kind': 'roundtrip', 'msgs': [R.default_msg('note_on'), R.default_msg('clock')], 'fmt': fmt})
        for ln in list(range(0, 140)) + [255, 256, 1000, 3000] + ([10000, 100000] if ctx.tier == 'thorough' else []):
            d = {'type': 'sysex', 'data': [(i * 5 + ln) % 128 for i in range(ln)], 'time': 0}
            ctx.check({'kind': 'roundtrip', 'msgs': [d, R.default_msg('start'), {'type': 'sysex', 'data': [1], 'time': 0}],
                       'fmt': fmt}, sample=False)
