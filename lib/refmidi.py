"""Independent reference for MIDI 1.0 channel/system messages (written from the MIDI 1.0 tables and
docs/message_types.rst, not from mido/messages/specs.py).

A message is described by a plain dict: {'type': str, <attribute>: value, ..., 'time': number}.
"""
from numbers import Integral, Real

# type -> (status, attribute names in wire order (channel first when it is a channel message))
CHANNEL_TYPES = {
    'note_off': (0x80, ('note', 'velocity')),
    'note_on': (0x90, ('note', 'velocity')),
    'polytouch': (0xA0, ('note', 'value')),
    'control_change': (0xB0, ('control', 'value')),
    'program_change': (0xC0, ('program',)),
    'aftertouch': (0xD0, ('value',)),
    'pitchwheel': (0xE0, ('pitch',)),
}
COMMON_TYPES = {
    'sysex': (0xF0, ('data',)),
    'quarter_frame': (0xF1, ('frame_type', 'frame_value')),
    'songpos': (0xF2, ('pos',)),
    'song_select': (0xF3, ('song',)),
    'tune_request': (0xF6, ()),
}
REALTIME = {'clock': 0xF8, 'start': 0xFA, 'continue': 0xFB, 'stop': 0xFC, 'active_sensing': 0xFE, 'reset': 0xFF}
REALTIME_BY_STATUS = {v: k for k, v in REALTIME.items()}
ALL_TYPES = list(CHANNEL_TYPES) + list(COMMON_TYPES) + list(REALTIME)

# documented attribute domains (docs/message_types.rst, "Parameter Types")
RANGES = {
    'channel': (0, 15), 'frame_type': (0, 7), 'frame_value': (0, 15), 'control': (0, 127), 'note': (0, 127),
    'program': (0, 127), 'song': (0, 127), 'value': (0, 127), 'velocity': (0, 127), 'pitch': (-8192, 8191),
    'pos': (0, 16383),
}
DEFAULTS = {'channel': 0, 'frame_type': 0, 'frame_value': 0, 'control': 0, 'note': 0, 'program': 0, 'song': 0,
            'value': 0, 'velocity': 64, 'pitch': 0, 'pos': 0, 'data': (), 'time': 0}


def attr_names(type_):
    """Attribute names of a message type other than 'type' and 'time'."""
    if type_ in CHANNEL_TYPES:
        return ('channel',) + CHANNEL_TYPES[type_][1]
    if type_ in COMMON_TYPES:
        return COMMON_TYPES[type_][1]
    if type_ in REALTIME:
        return ()
    raise KeyError(type_)


def default_msg(type_, **over):
    d = {'type': type_}
    for n in attr_names(type_):
        d[n] = DEFAULTS[n]
    d['time'] = 0
    d.update(over)
    return d


def ref_len(d):
    t = d['type']
    if t == 'sysex':
        return 2 + len(d['data'])
    if t in REALTIME or t == 'tune_request':
        return 1
    if t in ('program_change', 'aftertouch', 'quarter_frame', 'song_select'):
        return 2
    return 3


def ref_encode(d):
    """Exact MIDI 1.0 wire encoding of a message dict."""
    t = d['type']
    if t in REALTIME:
        return [REALTIME[t]]
    if t in CHANNEL_TYPES:
        status = CHANNEL_TYPES[t][0] + d['channel']
        if t == 'pitchwheel':
            u = d['pitch'] + 8192            # 0..16383, centre 8192
            return [status, u % 128, u // 128]
        return [status] + [d[n] for n in CHANNEL_TYPES[t][1]]
    if t == 'sysex':
        return [0xF0] + [int(b) for b in d['data']] + [0xF7]
    if t == 'quarter_frame':
        return [0xF1, d['frame_type'] * 16 + d['frame_value']]
    if t == 'songpos':
        return [0xF2, d['pos'] % 128, d['pos'] // 128]
    if t == 'song_select':
        return [0xF3, d['song']]
    if t == 'tune_request':
        return [0xF6]
    raise KeyError(t)


def is_int(x):
    return isinstance(x, Integral) and not isinstance(x, bool)


def expected_data_len(status):
    """Number of data bytes of the message starting with `status`; None = undefined / not a status;
    -1 = sysex (variable)."""
    if not is_int(status) or status < 0x80 or status > 0xFF:
        return None
    if status < 0xC0 or 0xE0 <= status < 0xF0:
        return 2
    if status < 0xE0:
        return 1
    return {0xF0: -1, 0xF1: 1, 0xF2: 2, 0xF3: 1, 0xF6: 0, 0xF8: 0, 0xFA: 0, 0xFB: 0, 0xFC: 0, 0xFE: 0,
            0xFF: 0}.get(status)


def ref_is_single_message(seq):
    """True iff seq (integers) is exactly one complete, well-formed MIDI message."""
    if len(seq) == 0:
        return False
    n = expected_data_len(seq[0])
    if n is None:
        return False
    if n == -1:
        if len(seq) < 2 or seq[-1] != 0xF7:
            return False
        body = seq[1:-1]
    else:
        if len(seq) != 1 + n:
            return False
        body = seq[1:]
    return all(is_int(b) and 0 <= b <= 127 for b in body)


def ref_decode(seq, time=0):
    """Decode a well-formed single message (see ref_is_single_message) into a dict."""
    s = seq[0]
    if s in REALTIME_BY_STATUS:
        return {'type': REALTIME_BY_STATUS[s], 'time': time}
    if s < 0xF0:
        base = s & 0xF0
        ch = s & 0x0F
        for t, (st, names) in CHANNEL_TYPES.items():
            if st == base:
                if t == 'pitchwheel':
                    return {'type': t, 'channel': ch, 'pitch': seq[1] + 128 * seq[2] - 8192, 'time': time}
                d = {'type': t, 'channel': ch}
                for n, v in zip(names, seq[1:]):
                    d[n] = v
                d['time'] = time
                return d
    if s == 0xF0:
        return {'type': 'sysex', 'data': tuple(seq[1:-1]), 'time': time}
    if s == 0xF1:
        return {'type': 'quarter_frame', 'frame_type': seq[1] // 16, 'frame_value': seq[1] % 16, 'time': time}
    if s == 0xF2:
        return {'type': 'songpos', 'pos': seq[1] + 128 * seq[2], 'time': time}
    if s == 0xF3:
        return {'type': 'song_select', 'song': seq[1], 'time': time}
    if s == 0xF6:
        return {'type': 'tune_request', 'time': time}
    raise ValueError(seq)


def value_ok(name, v):
    """Documented domain of one attribute value (bools are not judged: see DESIGN section 6)."""
    if name == 'time':
        return isinstance(v, Real)
    if name == 'data':
        return isinstance(v, tuple) and all(is_int(b) and 0 <= b <= 127 for b in v)
    lo, hi = RANGES[name]
    return is_int(v) and lo <= v <= hi


def ref_valid_vars(v):
    """Validity predicate over vars(message): returns None when valid, else a reason."""
    t = v.get('type')
    if t not in CHANNEL_TYPES and t not in COMMON_TYPES and t not in REALTIME:
        return f'unknown type {t!r}'
    want = set(attr_names(t)) | {'type', 'time'}
    if set(v) != want:
        return f'attribute set {sorted(v)} != {sorted(want)}'
    for n in want - {'type'}:
        if not value_ok(n, v[n]):
            return f'{n}={v[n]!r} ({type(v[n]).__name__}) outside documented domain'
    return None


def msg_to_dict(msg):
    """vars() of a mido message as a plain JSON-friendly dict (data -> list)."""
    d = dict(vars(msg))
    if 'data' in d:
        d['data'] = list(d['data'])
    return d


def same_message(msg, d):
    """Compare a mido Message with a reference dict attribute by attribute (value and Python type)."""
    v = vars(msg)
    if set(v) != set(d):
        return f'attributes {sorted(v)} != {sorted(d)}'
    for k in d:
        a, b = v[k], d[k]
        if k == 'data':
            if tuple(a) != tuple(b):
                return f'data {tuple(a)[:8]} != {tuple(b)[:8]}'
            if not isinstance(a, tuple):
                return f'data is {type(a).__name__}'
        else:
            if a != b or type(a) is not type(b):
                return f'{k}: {a!r} ({type(a).__name__}) != {b!r} ({type(b).__name__})'
    return None
