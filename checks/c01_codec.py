"""C01 - Message byte codec round-trips every valid message (exact MIDI 1.0 layout)."""
import itertools

from hypothesis import strategies as st

import mido
from lib import refmidi as R
from lib import strategies as S
from lib.harness import exc_sig, fail

PID = 'C01'
LEVEL = 'exploration'
RULE = ('All 1,331,463 non-sysex messages (every in-range attribute combination of the 17 fixed-length types) are '
        'enumerated completely; sysex payloads/times are drawn by Hypothesis (lengths 0..4096, boundary biased). '
        'Oracle: bytes()==independent reference encoder, structural well-formedness, bin/hex agreement, '
        'from_bytes/from_hex over every input container equals the original in class, attributes, value types and time, '
        'and the independent reference decoder agrees. Non-trivial = at least one attribute differs from its default; '
        'distinct by (type, attributes) - by construction for the enumeration, by hash for drawn cases.'
        ' Later additions: hex(sep)/from_hex(sep) for arbitrary separators together with time=; encodings handed'
        ' out are fresh objects; two threads converting different messages of one type under the deterministic'
        ' scheduler (every placement of one preemption in the codec modules).')
ASSUMPTIONS = ['reference codec lib/refmidi.py written from the MIDI 1.0 tables is correct',
               'times are compared with == and type identity; NaN/inf times are not generated']

# 'hexsepx:<sep>': separators that are regular-expression metacharacters (round 13: a from_hex that builds a pattern from
# the separator without escaping it)
CONTAINERS = ('list', 'tuple', 'bytes', 'bytearray', 'bin', 'hex', 'hexsep', 'hexsep2', 'hexsep3', 'hexnosep',
              'hexsepx:.', 'hexsepx:|', 'hexsepx:+', 'hexsepx:*', 'hexsepx:?', 'hexsepx:$', 'hexsepx:^', 'hexsepx:(',
              'hexsepx:[', 'hexsepx:\\', 'hexsepx: | ', 'hexsepx:..', 'hexsepx:{2}', 'hexsepx:)(',
              # 'hexws:<ws>': written with a white-space separator, read WITHOUT sep= - from_hex treats every white-space
              # character (what str.isspace / \\s mean for text) like a space (round 14: only [\\t\\n\\r\\f\\v])
              'hexws:\n', 'hexws:\t', 'hexws:\r\n', 'hexws:\x0b', 'hexws:\x0c', 'hexws:\x1c', 'hexws:\x1f', 'hexws:\x85',
              'hexws:\xa0', 'hexws:\u2003', 'hexws:\u2028', 'hexws:\u3000', 'hexws: \n ')


def _conv(kind, b):
    return {'list': list, 'tuple': tuple, 'bytes': bytes, 'bytearray': bytearray}[kind](b)


def _data_as(kind, data):
    if kind == 'generator':
        return (x for x in data)
    return {'list': list, 'tuple': tuple, 'bytes': bytes, 'bytearray': bytearray}[kind](data)


def check_msg(d, conts, t2, data_as='list'):
    """Full oracle for one valid message dict d; returns list of failures."""
    out = []
    kw = {k: v for k, v in d.items() if k != 'type'}
    if 'data' in kw:
        kw['data'] = _data_as(data_as, d['data'])
    try:
        m = mido.Message(d['type'], **kw)
    except Exception as exc:  # noqa: BLE001
        return [fail('constructor-rejects-valid', f'{d!r}: {exc!r}', type=d['type'], exc=exc_sig(exc))]
    want = R.ref_encode(d)
    try:
        got = m.bytes()
    except Exception as exc:  # noqa: BLE001
        return [fail('bytes-raises', f'{d!r}: {exc!r}', type=d['type'], exc=exc_sig(exc))]
    if got != want or not isinstance(got, list) or any(type(b) is not int for b in got):
        out.append(fail('layout', f'{d!r}: bytes()={got[:12]} reference={want[:12]}', type=d['type']))
    # structural well-formedness, stated independently of the reference encoder
    if not got or got[0] < 0x80 or any(not (0 <= b < 0x80) for b in got[1:(-1 if d['type'] == 'sysex' else None)]):
        out.append(fail('wellformed', f'{d!r}: {got[:12]}', type=d['type']))
    if d['type'] == 'sysex' and (got[0] != 0xF0 or got[-1] != 0xF7):
        out.append(fail('wellformed', f'sysex framing {got[:4]}..{got[-2:]}', type='sysex'))
    # what bytes() / bin() hand out belongs to the caller: scribbling on it must not change later encodings
    scratch = m.bytes()
    scratch.append(0x55)
    scratch[0] = 0
    m.bin().extend(b'\x01\x02')
    again = mido.Message(d['type'], **{k: (list(v) if k == 'data' else v) for k, v in d.items() if k != 'type'}).bytes()
    if m.bytes() != want or again != want:
        out.append(fail('shared-encoding', f'{d!r}: bytes() after the caller modified an earlier result: {m.bytes()[:8]} / '
                                           f'{again[:8]}, expected {want[:8]}', type=d['type']))
    if len(m) != len(got) or len(m) != R.ref_len(d):
        out.append(fail('len', f'{d!r}: len(m)={len(m)} len(bytes)={len(got)}', type=d['type']))
    if m.bin() != bytearray(want) or not isinstance(m.bin(), bytearray):
        out.append(fail('bin', f'{d!r}: bin()={m.bin()[:12]!r}', type=d['type']))
    if m.hex() != ' '.join('%02X' % b for b in want):
        out.append(fail('hex', f'{d!r}: hex()={m.hex()[:40]!r}', type=d['type']))
    for sep in ('', ':', ', ', ' 0x', '\\x', 'zz'):
        try:
            if m.hex(sep) != sep.join('%02X' % b for b in want):
                out.append(fail('hex', f'{d!r}: hex({sep!r})={m.hex(sep)[:40]!r}', type=d['type'], sep=sep))
                break
        except Exception as exc:  # noqa: BLE001
            out.append(fail('hex', f'{d!r}: hex({sep!r}) raised {exc!r}', type=d['type'], sep=sep))
            break
    expect = dict(d)
    expect['time'] = t2
    if 'data' in expect:
        expect['data'] = tuple(expect['data'])
    for c in conts:
        try:
            if c == 'bin':
                r = mido.Message.from_bytes(m.bin(), time=t2)
            elif c == 'hex':
                r = mido.Message.from_hex(m.hex(), time=t2)
            elif c == 'hexsep':
                r = mido.Message.from_hex(m.hex(sep=':'), time=t2, sep=':')
            elif c == 'hexsep2':
                r = mido.Message.from_hex(m.hex(sep=', '), time=t2, sep=', ')
            elif c == 'hexsep3':
                r = mido.Message.from_hex(m.hex(sep='-x-'), time=t2, sep='-x-')
            elif c == 'hexnosep':
                r = mido.Message.from_hex(m.hex(sep=''), time=t2)
            elif c.startswith('hexsepx:'):
                r = mido.Message.from_hex(m.hex(sep=c[8:]), time=t2, sep=c[8:])
            elif c.startswith('hexws:'):
                r = mido.Message.from_hex(m.hex(sep=c[6:]), time=t2)
            else:
                r = mido.Message.from_bytes(_conv(c, got), time=t2)
        except Exception as exc:  # noqa: BLE001
            out.append(fail('decode-raises', f'{d!r} via {c}: {exc!r}', type=d['type'], via=c, exc=exc_sig(exc)))
            continue
        if type(r) is not mido.Message:
            out.append(fail('decode-class', f'{type(r)}', type=d['type'], via=c))
            continue
        why = R.same_message(r, expect)
        if why:
            out.append(fail('roundtrip', f'{d!r} via {c}: {why}', type=d['type'], via=c))
        elif not (r == m.copy(time=t2)):
            out.append(fail('roundtrip-eq', f'{d!r} via {c}: decoded != original under ==', type=d['type'], via=c))
    # two decodes of the same bytes are independent objects (no interning / caching of results)
    try:
        r1 = mido.Message.from_bytes(list(want), time=t2)
        r2 = mido.Message.from_bytes(list(want), time=t2)
        if r1 is r2:
            out.append(fail('decode-shared', f'{d!r}: from_bytes returned the same object twice', type=d['type']))
        else:
            r1.time = 424242
            if r2.time == 424242 and t2 != 424242:
                out.append(fail('decode-shared', f'{d!r}: changing one decoded message changed another', type=d['type']))
    except Exception as exc:  # noqa: BLE001
        out.append(fail('decode-raises', f'{d!r} second decode: {exc!r}', type=d['type'], via='list', exc=exc_sig(exc)))
    # independent decoder agrees with what mido wrote
    try:
        rd = R.ref_decode(got, time=d['time'])
        if 'data' in rd:
            rd['data'] = tuple(rd['data'])
        why = R.same_message(m, rd)
        if why:
            out.append(fail('refdecode', f'{d!r}: {why}', type=d['type']))
    except Exception as exc:  # noqa: BLE001
        out.append(fail('refdecode', f'{d!r}: reference decoder rejects {got[:12]}: {exc!r}', type=d['type']))
    return out


CODEC_FILES = ('mido/messages/encode.py', 'mido/messages/decode.py', 'mido/messages/messages.py', 'mido/messages/checks.py')


def check_threads(case):
    """The codec is a set of pure functions: two threads converting different messages get the results the reference
    gives for each, wherever the thread switch falls (statement granularity inside the codec modules)."""
    from lib.sched import fresh_mido, run_threads
    da, db = case['a'], case['b']
    # 'fresh': the very first conversions in the life of the package happen inside the two threads (tables or caches
    # that are filled lazily on first use are then filled under preemption)
    lib = fresh_mido() if case.get('fresh') else mido

    def worker(d):
        def body():
            if case.get('fresh') == 'decode-first':
                back = lib.Message.from_bytes(R.ref_encode(d), time=d['time'])
                m = lib.Message(d['type'], **{k: v for k, v in d.items() if k != 'type'})
                return m.bytes(), back, m.hex()
            m = lib.Message(d['type'], **{k: v for k, v in d.items() if k != 'type'})
            raw = m.bytes()
            back = lib.Message.from_bytes(R.ref_encode(d), time=d['time'])
            return raw, back, m.hex()
        return body
    results, errors, steps, reason = run_threads(CODEC_FILES, [worker(da), worker(db)], schedule=case.get('sched'),
                                                 first=case.get('first', 0))
    LAST_STEPS[0] = steps
    out = []
    if reason:
        raise RuntimeError(f'scheduler: {reason}')
    for i, d in enumerate((da, db)):
        if errors[i] is not None:
            out.append(fail('threads-raise', f'thread {i} converting {d}: {errors[i]!r}', exc=exc_sig(errors[i])))
            continue
        raw, back, hx = results[i]
        want = R.ref_encode(d)
        expect = dict(d)
        if 'data' in expect:
            expect['data'] = tuple(expect['data'])
        if raw != want or hx != ' '.join(f'{b:02X}' for b in want):
            out.append(fail('threads-encode', f'thread {i}: {d} encoded as {raw} / {hx!r}, expected {want} '
                                              f'(other thread was converting {(db, da)[i]})', type=d['type']))
        why = R.same_message(back, expect)
        if why:
            out.append(fail('threads-decode', f'thread {i}: bytes of {d} decoded as {back!r}: {why}', type=d['type']))
    return out


LAST_STEPS = [0]


def run_case(case):
    if case.get('kind') == 'threads':
        return check_threads(case)
    return check_msg(case['msg'], case.get('conts', CONTAINERS), case.get('t2', case['msg']['time']),
                     case.get('data_as', 'list'))


def nontrivial(case):
    if case.get('kind') == 'threads':
        return bool(case.get('sched'))
    d = case['msg']
    return any(d[n] != R.DEFAULTS[n] and not (n == 'data' and len(d[n]) == 0) for n in d if n not in ('type', 'time'))


# ---- exhaustive enumeration -------------------------------------------------------------------------------------

def shards():
    out = []
    for t in R.ALL_TYPES:
        if t == 'sysex':
            continue
        names = R.attr_names(t)
        if names and names[0] == 'channel':
            for ch in range(16):
                out.append((t, ch))
        else:
            out.append((t, None))
    return out


def enum_shard(rec, shard):
    t, ch = shard
    names = [n for n in R.attr_names(t) if n != 'channel']
    ranges = [range(R.RANGES[n][0], R.RANGES[n][1] + 1) for n in names]
    conts = CONTAINERS if rec.tier == 'thorough' else ('list', 'bin')
    times = (0, 3, 0.25) if rec.tier == 'thorough' else (0, 7)
    i = 0
    for vals in itertools.product(*ranges):
        d = {'type': t}
        if ch is not None:
            d['channel'] = ch
        d.update(zip(names, vals))
        tm = times[i % len(times)]
        i += 1
        if not rec.keep(i, 23):
            continue
        d['time'] = tm
        fs = check_msg(d, conts, tm)
        rec.evals += 1
        if any(d[n] != R.DEFAULTS[n] for n in d if n not in ('type', 'time')):
            rec.nt_enum += 1
        rec.classes[t] += 1
        if fs:
            rec.check({'msg': d, 'conts': list(conts), 't2': tm}, nontrivial=False, sample=False)
            rec.evals -= 1
    if i and len(rec.samples) < 1:
        rec.samples.append({'msg': d, 'conts': list(conts), 't2': tm})


def thread_shard(rec, shard):
    """Two threads, same message type, different contents: every placement of one preemption (both start orders)."""
    t, = shard
    a = R.default_msg(t)
    b = R.default_msg(t)
    for n in R.attr_names(t):
        if n == 'data':
            a['data'], b['data'] = [1, 2, 3], [4, 5]
        elif n == 'pitch':
            a[n], b[n] = -1, 100
        elif n == 'pos':
            a[n], b[n] = 300, 5
        elif n in ('frame_type', 'frame_value'):
            a[n], b[n] = 1, 2
        else:
            a[n], b[n] = 1, 2
    if a == b:
        return              # no parameters: nothing to mix up
    for first in (0, 1):
        base = {'kind': 'threads', 'a': a, 'b': b, 'sched': [], 'first': first}
        rec.check(base, sample=False)
        steps = LAST_STEPS[0]
        for i in range(steps):
            rec.check({'kind': 'threads', 'a': a, 'b': b, 'sched': [[i, 1]], 'first': first}, distinct=True,
                      sample=(i == 7 and first == 0), classes=('threads',))
    # the same with a freshly imported package per schedule (first use under preemption), decoding or encoding first
    for fresh in ('decode-first', 'encode-first'):
        base = {'kind': 'threads', 'a': a, 'b': b, 'sched': [], 'first': 0, 'fresh': fresh}
        rec.check(base, sample=False)
        steps = LAST_STEPS[0]
        for i in range(0, steps):
            if rec.keep(i, 4):
                rec.check({'kind': 'threads', 'a': a, 'b': b, 'sched': [[i, 1]], 'first': 0, 'fresh': fresh}, distinct=True,
                          sample=False, classes=('threads-first-use',))


def main(ctx):
    ctx.pmap('enum_shard', shards())
    ctx.exhaustive = True
    ctx.extra['exhaustive_scope'] = 'non-sysex message space (1,331,463 messages) complete; sysex/time space sampled'
    n = 2000 if ctx.tier == 'quick' else 50000
    max_sysex = 600 if ctx.tier == 'quick' else 4096
    strat = st.fixed_dictionaries({
        'msg': S.msg_dict(max_sysex=max_sysex),
        'conts': st.just(list(CONTAINERS)),
        't2': S.times(),
        'data_as': st.sampled_from(['list', 'tuple', 'bytes', 'bytearray', 'generator']),
    })
    ctx.hyp(strat, n, label='drawn')
    # sysex-focused block (long payloads)
    strat2 = st.fixed_dictionaries({
        'msg': S.msg_dict(types=['sysex'], max_sysex=max_sysex),
        'conts': st.just(list(CONTAINERS)),
        't2': S.times(),
        'data_as': st.sampled_from(['list', 'tuple', 'bytes', 'bytearray', 'generator']),
    })
    ctx.hyp(strat2, n // 4, label='sysex', seed_offset=1)
    ctx.pmap('thread_shard', [(t,) for t in R.ALL_TYPES])
    if ctx.tier == 'thorough':
        for size in (10000, 100000):
            d = {'type': 'sysex', 'data': [(i * 7) % 128 for i in range(size)], 'time': 0}
            ctx.check({'msg': d, 'conts': list(CONTAINERS), 't2': 1.5})
