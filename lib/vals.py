"""Tagged JSON encoding of Python values that JSON cannot carry (tuples, bytes, generators, ...)."""
from fractions import Fraction


class _IntSub(int):
    """An int subclass (what IntEnum members and numpy-free user types look like): still an integer."""


def T(kind, v=None):
    return {'__t__': kind, 'v': v}


def dec(x):
    """Decode a tagged value into the Python object handed to the code under test."""
    if isinstance(x, dict) and '__t__' in x:
        k, v = x['__t__'], x['v']
        if k == 'tuple':
            return tuple(dec(i) for i in v)
        if k == 'bytes':
            return bytes(v)
        if k == 'bytearray':
            return bytearray(v)
        if k == 'range':
            return range(*v)
        if k == 'gen':
            return (dec(i) for i in v)
        if k == 'float':
            return float(v)
        if k == 'fraction':
            return Fraction(v[0], v[1])
        if k == 'complex':
            return complex(v[0], v[1])
        if k == 'set':
            return set(v)
        if k == 'intsub':
            return _IntSub(v)
        if k == 'sysexdata':
            import mido
            return type(mido.Message('sysex').data)(dec(i) for i in v)
        raise KeyError(k)
    if isinstance(x, list):
        return [dec(i) for i in x]
    return x


def items_of(x):
    """The list of items a (tagged) sequence value would produce, or None when it is not iterable material."""
    if isinstance(x, dict) and '__t__' in x:
        k, v = x['__t__'], x['v']
        if k in ('tuple', 'gen', 'sysexdata'):
            return [dec(i) for i in v]
        if k in ('bytes', 'bytearray'):
            return list(v)
        if k == 'range':
            return list(range(*v))
        return None
    if isinstance(x, list):
        return [dec(i) for i in x]
    return None
