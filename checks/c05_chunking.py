"""C05 - parsing does not depend on how the stream is chunked or consumed (FIFO, pending(), get_message())."""
import itertools

from hypothesis import strategies as st
from hypothesis.stateful import RuleBasedStateMachine, initialize, invariant, precondition, rule

import mido
from mido.backends._parser_queue import ParserQueue

from lib import refmidi as R
from lib import strategies as S
from lib.harness import Violation, exc_sig, fail

LAST_TAGS = set()
PID = 'C05'
LEVEL = 'exploration'
RULE = ('(a) Rule-based state machine: a byte stream (valid encodings, cut-short encodings, junk) is drawn, then rules '
        'feed(n bytes as list/bytes/bytearray/generator), feed_byte, get_message, pending/len, iterate-all, '
        'iterate-one-and-abandon, iterate-with-nested-get, iterate-while-feeding run in any order until a final drain; '
        'the same op lists drive ParserQueue.put_bytes/poll/iterpoll. (b) Exhaustive: all 5,832 three-message streams over '
        'the 18 types x every single cut and every pair of cuts x chunk-wise and byte-wise feeding. Oracle: after feeding '
        'prefix P the messages produced so far must be parse_all(P) (fresh parser, all at once); retrievals hand them out '
        'FIFO, pending()==produced-retrieved, get_message() is None exactly when that is 0, total == parse_all(stream). '
        'Non-trivial = a cut strictly inside a message that is later yielded and a retrieval between two feeds; distinct by '
        '(stream, ops).'
        ' Later additions: streams assembled from segments whose yield is known by construction (whole message,'
        ' message cut short, stray bytes, lone F7, undefined status) fed one chunk per segment in cycling'
        ' container types; two feeder threads on a ParserQueue under the scheduler; a bystander instance; 70 000'
        ' pending messages / a 70 000-byte sysex with expectations known by construction; every retrieved message is a'
        ' new object with time 0, is stamped by the harness and compared through a private copy.')
ASSUMPTIONS = ['parse_all on the whole stream is itself held to C04/C06',
               'whether messages fed from inside a running for-loop are delivered by that loop or by the next retrieval '
               'is not fixed by the statement; only order, completeness and pending() are asserted']

CONTS = ('list', 'bytes', 'bytearray', 'generator', 'tuple')


def _as(cont, chunk):
    if cont == 'bytes':
        return bytes(chunk)
    if cont == 'bytearray':
        return bytearray(chunk)
    if cont == 'generator':
        return (b for b in chunk)
    if cont == 'tuple':
        return tuple(chunk)
    return list(chunk)


class Interp:
    """Executes ops against a real Parser (or ParserQueue) and the prefix model."""

    def __init__(self, data, target='parser', msgs=None):
        self.data = list(data)
        self.target = target
        # volume cases are built from a list of messages: the expected output is then known by construction
        # (independently of mido.parse_all, which shares the queue with the code under test)
        self.known = None
        if msgs is not None:
            import itertools
            encs = [R.ref_encode(d) for d in msgs]
            assert [b for e in encs for b in e] == self.data
            self.known = ([mido.Message(d['type'], **{k: v for k, v in d.items() if k != 'type'}) for d in msgs],
                          list(itertools.accumulate(len(e) for e in encs)))
        self.p = mido.Parser() if target == 'parser' else ParserQueue()
        # a bystander instance of the same class, fed other bytes in between: instances must not share state
        self.other = mido.Parser() if target == 'parser' else ParserQueue()
        self.pos = 0
        self.got = []          # retrieved messages in order
        self._ids, self._objs = set(), []
        self.fails = []
        self.cut_inside = False
        self.retrieval_between = False
        self._retr_since_feed = False
        self._fed_once = False
        self._bounds = None

    # model
    def produced(self):
        if getattr(self, '_prod_pos', None) != self.pos:
            if self.known is not None:
                import bisect
                self._prod = self.known[0][:bisect.bisect_right(self.known[1], self.pos)]
            else:
                self._prod = mido.parse_all(self.data[:self.pos])
            self._prod_pos = self.pos
        return self._prod

    def _fail(self, clause, detail):
        self.fails.append(fail(clause, f'{detail} (target={self.target}, pos={self.pos}, data={self.data[:24]})',
                               target=self.target))

    def _note_feed(self, n):
        if self._fed_once and self._retr_since_feed:
            self.retrieval_between = True
        self._fed_once = True
        self._retr_since_feed = False
        if self._bounds is None:
            # byte offsets at which a yielded message starts/ends are not recomputed exactly; a cut is "inside" when
            # the prefix up to it yields fewer messages than the prefix one byte further would complete
            self._bounds = True
        if len(self.data) > 5000:
            self.cut_inside = True          # volume cases: not classified (it would cost O(n) per feed)
            return
        before = len(mido.parse_all(self.data[:self.pos]))
        after_all = len(mido.parse_all(self.data[:self.pos + n]))
        if 0 < self.pos and after_all > before:
            # some message completes in this chunk; was it started before the cut?
            alone = len(mido.parse_all(self.data[self.pos:self.pos + n]))
            if alone < after_all - before:
                self.cut_inside = True

    def _check_next(self, msg, what):
        prod = self.produced()
        r = len(self.got)
        if msg is None:
            if r < len(prod):
                self._fail('none-while-pending', f'{what} returned None with {len(prod) - r} outstanding')
            return
        if r >= len(prod):
            self._fail('extra-message', f'{what} returned {msg!r} but nothing is outstanding')
            self.got.append(msg)
            return
        if type(msg) is not mido.Message or not (msg == prod[r]):
            self._fail('fifo', f'{what} returned {msg!r}, expected {prod[r]!r}')
        # what was retrieved belongs to the caller (round 13: one cached Message object per single-byte type, handed out
        # by every parser): a fresh object with time 0 each time; the caller stamps it, later retrievals do not show that
        if type(msg) is mido.Message:
            if id(msg) in self._ids:
                self._fail('shared-object', f'{what} returned an object that was handed out before: {msg!r}')
            elif msg.time != 0:
                self._fail('stale-time', f'{what} returned {msg!r}: time is not 0 (an earlier caller stamped 3.5)')
            self._ids.add(id(msg))
            self._objs.append(msg)
            snap = msg.copy()
            msg.time = 3.5
            msg = snap
        self.got.append(msg)

    def step(self, op):
        kind = op[0]
        try:
            self._step(kind, op)
        except Violation:
            raise
        except Exception as exc:  # noqa: BLE001
            self._fail('raises', f'op {op}: {exc!r} [{exc_sig(exc)}]')

    def _feed(self, n, cont):
        n = max(0, min(n, len(self.data) - self.pos))
        chunk = self.data[self.pos:self.pos + n]
        self._note_feed(n)
        noise = [0xB3, 0x07, (self.pos * 7) % 128, 0xF0, 0x05]
        if self.target == 'parser':
            self.other.feed(noise)
        else:
            self.other.put_bytes(noise)
        if self.target == 'parser':
            self.p.feed(_as(cont, chunk))
        else:
            self.p.put_bytes(_as(cont, chunk))
        self.pos += n

    def _step(self, kind, op):
        p = self.p
        if kind == 'feed':
            self._feed(op[1], op[2])
        elif kind == 'feed_byte':
            if self.pos < len(self.data):
                self._note_feed(1)
                if self.target == 'parser':
                    p.feed_byte(self.data[self.pos])
                else:
                    p.put_bytes([self.data[self.pos]])
                self.pos += 1
        elif kind == 'get':
            self._retr_since_feed = True
            m = p.get_message() if self.target == 'parser' else p.poll()
            self._check_next(m, 'get_message' if self.target == 'parser' else 'poll')
        elif kind == 'pending':
            self._retr_since_feed = True
            want = len(self.produced()) - len(self.got)
            if self.target == 'parser':
                if p.pending() != want or len(p) != want:
                    self._fail('pending', f'pending()={p.pending()} len()={len(p)} expected {want}')
        elif kind == 'fork':
            # go on with a deep copy of the parser (a checkpoint taken in mid-stream); the original is fed something else
            import copy
            try:
                clone = copy.deepcopy(p)
            except Exception:  # noqa: BLE001
                return              # not copyable: nothing is claimed
            if type(clone) is type(p):
                if self.target == 'parser':
                    p.feed([0xB5, 0x07, 0x01, 0xF0, 0x02])
                else:
                    p.put_bytes([0xB5, 0x07, 0x01, 0xF0, 0x02])
                self.p = clone
        elif kind == 'iter_all':
            self._retr_since_feed = True
            want = len(self.produced()) - len(self.got)
            it = iter(p) if self.target == 'parser' else p.iterpoll()
            n = 0
            for m in it:
                self._check_next(m, 'iteration')
                n += 1
                if n > want + 5:
                    break
            if n != want:
                self._fail('iteration-count', f'iteration yielded {n}, outstanding were {want}')
        elif kind == 'iter_one':
            self._retr_since_feed = True
            it = iter(p) if self.target == 'parser' else p.iterpoll()
            m = next(it, None)
            self._check_next(m, 'next(iter)')
            del it
        elif kind == 'iter_nested':
            # retrieval calls inside a live iteration
            self._retr_since_feed = True
            it = iter(p) if self.target == 'parser' else p.iterpoll()
            n = 0
            for m in it:
                self._check_next(m, 'iteration')
                inner = p.get_message() if self.target == 'parser' else p.poll()
                self._check_next(inner, 'nested get')
                n += 1
                if n > len(self.data) + 5:
                    break
            want = len(self.produced()) - len(self.got)
            if want:
                self._fail('iteration-count', f'nested iteration ended with {want} outstanding')
        elif kind == 'iter_feed':
            # feeding from inside the loop body: order/completeness only (see ASSUMPTIONS)
            self._retr_since_feed = True
            it = iter(p) if self.target == 'parser' else p.iterpoll()
            n = 0
            for m in it:
                self._check_next(m, 'iteration')
                self._feed(op[1], op[2])
                n += 1
                if n > len(self.data) + 5:
                    break
        else:
            raise KeyError(kind)

    def finish(self):
        self.step(('feed', len(self.data), 'list'))
        self.step(('pending',))
        self.step(('iter_all',))
        self.step(('get',))
        total = mido.parse_all(list(self.data))
        if self.known is not None and (len(total) != len(self.known[0]) or any(
                not (a == b) for a, b in zip(total, self.known[0]))):
            self._fail('total', f'parse_all(stream) returns {len(total)} messages, the stream is the concatenation of '
                                f'{len(self.known[0])} messages')
        if len(self.got) != len(total) or any(not (a == b) for a, b in zip(self.got, total)):
            self._fail('total', f'retrieved {len(self.got)} messages, parse_all(stream) has {len(total)}')
        return self.fails


def check_segments(case):
    """Chunks that coincide with the structure of the stream: each segment of a stream built by the C06 grammar (whole
    message, message cut short, stray bytes, lone F7) is handed over as one chunk, in the container given. The result
    must equal the single-call parse of the same bytes AND what the construction says the stream holds."""
    from checks import c06_resync as C06
    built = C06.build_grammar(case['segs'])
    if built is None:
        return []
    data, want_d, bounds = built
    want = [C06.mk(d) for d in want_d]
    conts = case.get('conts', ['bytes'])
    out = []
    for target in ('parser', 'queue'):
        try:
            p = mido.Parser() if target == 'parser' else ParserQueue()
            lo = 0
            got = []
            for i, hi in enumerate(bounds):
                chunk = _as(conts[i % len(conts)], data[lo:hi])
                (p.feed if target == 'parser' else p.put_bytes)(chunk)
                lo = hi
                if case.get('drain_between'):
                    got.extend(list(p) if target == 'parser' else list(p.iterpoll()))
            got.extend(list(p) if target == 'parser' else list(p.iterpoll()))
            whole = mido.parse_all(list(data))
        except Exception as exc:  # noqa: BLE001
            out.append(fail('raises', f'segments {case["segs"]}: {exc!r}', exc=exc_sig(exc)))
            continue
        if len(got) != len(whole) or any(not (a == b) for a, b in zip(got, whole)):
            out.append(fail('chunk-dependent', f'segments {case["segs"]} fed one chunk per segment ({conts}) to a {target}: '
                                               f'{got!r}; fed at once: {whole!r}'[:900], target=target))
        elif len(got) != len(want) or any(not (a == b) for a, b in zip(got, want)):
            out.append(fail('total', f'segments {case["segs"]}: {got!r}, by construction the stream holds {want!r}'[:900],
                            target=target))
    return out


def run_case(case):
    import mido.parser
    import mido.tokenizer
    import mido.backends._parser_queue as pq
    from lib.doubles import jumping_clock
    with jumping_clock(mido.tokenizer, mido.parser, pq):      # chunks may arrive at any pace
        return _run_case(case)


def _run_case(case):
    if case.get('kind') == 'segments':
        LAST_TAGS.clear()
        LAST_TAGS.add('chunk-per-segment')
        return check_segments(case)
    if case.get('kind') == 'sched':
        # ParserQueue fed by two threads under the deterministic scheduler (machinery of C10): the queue must hand
        # messages out in the order the parser produced them, whatever the interleaving of the put_bytes calls
        from checks import c10_concurrency as C10
        return C10.run_case(case)
    LAST_TAGS.clear()
    it = Interp(case['data'], case.get('target', 'parser'), case.get('msgs'))
    for op in case['ops']:
        it.step(tuple(op))
    fs = it.finish()
    if it.cut_inside:
        LAST_TAGS.add('cut-inside-a-message')
    if it.retrieval_between:
        LAST_TAGS.add('retrieval-between-feeds')
    LAST_TAGS.update('op:' + op[0] for op in case['ops'])
    return fs


def nontrivial(case):
    if case.get('kind') == 'segments':
        return any(s[0] == 'cut' for s in case['segs'])
    if case.get('kind') == 'sched':
        return bool(case.get('sched'))
    it = Interp(case['data'], case.get('target', 'parser'))
    try:
        for op in case['ops']:
            it.step(tuple(op))
    except Exception:  # noqa: BLE001
        return False
    return it.cut_inside and it.retrieval_between


# ---- state machine ---------------------------------------------------------------------------------------------

_CTX = None


def make_machine(target):
    class ChunkMachine(RuleBasedStateMachine):
        def __init__(self):
            super().__init__()
            self.it = None
            self.ops = []

        @initialize(data=S.byte_stream(max_chunks=10))
        def init(self, data):
            self.it = True
            self.data = data

        def _do(self, op):
            self.ops.append(list(op))

        @rule(n=st.integers(0, 7), cont=st.sampled_from(CONTS))
        def feed(self, n, cont):
            self._do(('feed', n, cont))

        @rule()
        def feed_byte(self):
            self._do(('feed_byte',))

        @rule()
        def get(self):
            self._do(('get',))

        @rule()
        def pending(self):
            self._do(('pending',))

        @rule()
        def fork(self):
            self._do(('fork',))

        @rule()
        def iter_all(self):
            self._do(('iter_all',))

        @rule()
        def iter_one(self):
            self._do(('iter_one',))

        @rule()
        def iter_nested(self):
            self._do(('iter_nested',))

        @rule(n=st.integers(1, 5), cont=st.sampled_from(CONTS))
        def iter_feed(self, n, cont):
            self._do(('iter_feed', n, cont))

        def teardown(self):
            if self.it is None:
                return
            case = {'data': self.data, 'ops': self.ops, 'target': target}
            unknown = _CTX.run_tagged(case)
            if unknown:
                raise Violation(unknown[0]['sig'])

    return ChunkMachine


# ---- exhaustive cuts -------------------------------------------------------------------------------------------

def _enc(t, alt):
    d = R.default_msg(t)
    if t == 'sysex':
        d['data'] = (1, 2) if not alt else ()
    for n in R.attr_names(t):
        if n != 'data' and alt:
            d[n] = R.RANGES[n][1]
    return R.ref_encode(d)


def cuts_shard(rec, t0):
    for t1 in R.ALL_TYPES:
        for t2 in R.ALL_TYPES:
            data = _enc(t0, False) + _enc(t1, True) + _enc(t2, False)
            whole = mido.parse_all(list(data))
            n = len(data)
            for c1, c2 in itertools.combinations_with_replacement(range(0, n + 1), 2):
                if rec.reduced and (c1 + 3 * c2) % 9:
                    continue
                bad = False
                for target in ('parser', 'queue'):
                    p = mido.Parser() if target == 'parser' else ParserQueue()
                    got = []
                    try:
                        for chunk in (data[:c1], data[c1:c2], data[c2:]):
                            if target == 'parser':
                                p.feed(bytes(chunk))
                                got.extend(p)
                            else:
                                p.put_bytes(chunk)
                                got.extend(p.iterpoll())
                    except Exception:  # noqa: BLE001
                        bad = True
                    if bad or len(got) != len(whole) or any(not (a == b) for a, b in zip(got, whole)):
                        bad = True
                rec.evals += 1
                if bad:
                    ops = [['feed', c1, 'bytes'], ['iter_all'], ['feed', c2 - c1, 'bytes'], ['iter_all']]
                    for target in ('parser', 'queue'):
                        rec.check({'data': data, 'ops': ops, 'target': target}, nontrivial=False, sample=False)
                        rec.evals -= 1
                elif 0 < c1 < n and c1 not in (len(_enc(t0, False)), len(_enc(t0, False)) + len(_enc(t1, True))):
                    rec.nt_enum += 1
            # byte-wise feeding with a get after every byte
            rec.check({'data': data, 'ops': [op for _ in data for op in (['feed_byte'], ['get'])]},
                      nontrivial=True, distinct=True, sample=False)
    rec.samples.append({'data': data, 'ops': [['feed', 2, 'bytes'], ['iter_all'], ['feed', 3, 'bytes'], ['iter_all']]})


def machine_shard(rec, shard):
    global _CTX
    _CTX = rec
    target, k, n, steps = shard
    rec.machine(make_machine(target), n, steps, label=f'{target}-machine', seed_offset=k)


def sched_shard(rec, shard):
    from checks import c10_concurrency as C10
    progs = [{'port': 'pqueue', 'senders': [1, 1], 'receivers': [{'mode': 'poll', 'quota': 2}], 'sysex': sx}
             for sx in (False, True)] + [{'port': 'pqueue', 'senders': [2, 1], 'receivers': [{'mode': 'poll', 'quota': 3}]}]
    prog = progs[shard]
    for first in range(3):
        base = {'kind': 'sched', 'prog': prog, 'sched': [], 'first': first}
        rec.check(base, sample=(first == 0))
        steps = C10.LAST['steps']
        for i in range(steps):
            for a in (1, 2):
                rec.check({'kind': 'sched', 'prog': prog, 'sched': [[i, a]], 'first': first}, distinct=True, sample=False,
                          classes=('two-feeder-schedules',))


def volume_case(n, chunk, target):
    data = []
    for i in range(n):
        data += [0x90 | (i % 16), i % 128, 1 + i % 127] if i % 7 else [0xF0, i % 128, (i // 128) % 128, 0xF7]
        if i % 11 == 0:
            data.append(0xF8)
    ops = []
    k = 0
    while k * chunk < len(data):
        ops.append(['feed', chunk, ('bytes', 'list', 'bytearray')[k % 3]])
        if k % 5 == 4:
            ops.append(['iter_one'])
            ops.append(['pending'])
        k += 1
    return {'data': data, 'ops': ops, 'target': target}


def huge_cases():
    # more than 2**16 messages pending before the first retrieval; one sysex longer than 2**16 bytes fed in pieces
    msgs = [{'type': 'aftertouch', 'channel': i % 16, 'value': i % 128, 'time': 0} for i in range(70000)]
    data = [b for d in msgs for b in R.ref_encode(d)]
    yield {'data': data, 'msgs': msgs, 'target': 'parser',
           'ops': [['feed', 50000, 'bytes'], ['pending'], ['feed', 90000, 'list'], ['pending'], ['get']]}
    yield {'data': data, 'msgs': msgs, 'ops': [['feed', 140000, 'bytes'], ['iter_one'], ['pending']], 'target': 'queue'}
    yield {'data': data, 'msgs': msgs, 'ops': [['feed', 140000, 'bytes'], ['iter_all']], 'target': 'parser'}
    smsgs = [{'type': 'note_on', 'channel': 1, 'note': 1, 'velocity': 2, 'time': 0},
             {'type': 'sysex', 'data': [(i * 3) % 128 for i in range(70000)], 'time': 0},
             {'type': 'note_off', 'channel': 1, 'note': 3, 'velocity': 4, 'time': 0}]
    sx = [b for d in smsgs for b in R.ref_encode(d)]
    yield {'data': sx, 'msgs': smsgs, 'target': 'parser',
           'ops': [['feed', 30000, 'bytes'], ['get'], ['feed', 30000, 'bytearray'], ['pending'], ['feed', 9000, 'list'],
                   ['feed', 2000, 'bytes']]}
    yield {'data': sx, 'msgs': smsgs, 'ops': [['feed', 66000, 'bytes'], ['feed', 1, 'list'], ['pending']], 'target': 'queue'}


def segments_shard(rec, shard):
    from checks import c06_resync as C06
    t, = shard
    final = R.default_msg('note_on', note=77, velocity=3)
    tails = ([], [['stray', [5]]], [['eox']], [['stray', [2, 3]], ['eox']], [['stray', [3]], ['undef', 0xFD]])
    for d0 in C06.two_settings(t):
        enc = R.ref_encode(d0)
        for k in range(1, len(enc)):
            for t2 in R.ALL_TYPES:
                d1 = C06.two_settings(t2)[0]
                for tail in tails:
                    segs = [['cut', d0, k], ['whole', d1]] + tail + [['whole', final]]
                    if C06.build_grammar(segs) is None:
                        continue
                    for conts in (['bytes'], ['list'], ['tuple', 'bytearray']):
                        rec.check_tagged({'kind': 'segments', 'segs': segs, 'conts': conts,
                                        'drain_between': len(conts) == 2})


def segments_hyp_shard(rec, shard):
    from checks import c06_resync as C06
    k, n = shard
    strat = st.builds(lambda c, conts, dr: {'kind': 'segments', 'segs': c['segs'], 'conts': conts, 'drain_between': dr},
                      C06.segment_lists(), st.lists(st.sampled_from(['bytes', 'list', 'tuple', 'bytearray']), min_size=1,
                                                    max_size=3), st.booleans())
    rec.hyp(strat, n, body=lambda case: rec.run_tagged(case), seed_offset=500 + k)


def main(ctx):
    ctx.pmap('segments_shard', [(t,) for t in R.ALL_TYPES if t not in R.REALTIME])
    ctx.pmap('segments_hyp_shard', [(k, 250 if ctx.tier == 'quick' else 5000) for k in range(4)])
    for case in huge_cases():
        ctx.check(case, sample=False, classes=('volume',))
    for target in ('parser', 'queue'):
        ctx.check(volume_case(6000, 4093, target), sample=False, classes=('volume',))
    ctx.pmap('sched_shard', [0, 1, 2])
    ctx.pmap('cuts_shard', list(R.ALL_TYPES))
    n = 1200 if ctx.tier == 'quick' else 32000
    steps = 30 if ctx.tier == 'quick' else 50
    w = 6 if ctx.tier == 'quick' else 12
    ctx.pmap('machine_shard', [('parser', k, n // w, steps) for k in range(w)] +
             [('queue', 100 + k, n // (3 * w), steps) for k in range(w // 2)])
