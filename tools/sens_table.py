#!/usr/bin/env python3
"""Turn the output of `tools/mutation_audit.py --all` into SENSITIVITY.md (which check catches which change)."""
import glob
import json
import os
import re
import sys

HERE = os.path.dirname(os.path.dirname(os.path.abspath(__file__)))


def main():
    log = open(sys.argv[1]).read()
    rows = re.findall(r'^(C\d+) (\S+)\s+(caught|MISSED|error\(\d+\))\s*$', log, re.M)
    verdict = {name: v for _, name, v in rows}
    out = ['# Sensitivity: which check catches which change', '',
           'Produced by `tools/mutation_audit.py --all` (quick tier, VERIF_SEED=1): each change is applied to a scratch clone '
           'of /repo and the quick check of the property it targets is run against it; "caught" = exit 1 with a VIOLATION '
           'line. Seeded changes were written by independent sub-agents that saw only the property text; own mutants are '
           'one edit per "must catch" bullet of DESIGN.md section 3 (plus a few added from the generic mutation sample). '
           'Audits skip the variant run once the main run has failed. ' + (sys.argv[2] if len(sys.argv) > 2 else ''), '',
           '## Seeded changes (independent sub-agents, all confirmed with their own demonstration)', '',
           '| change | round | check | result | what it breaks / what it needs |', '|---|---|---|---|---|']
    for meta in sorted(glob.glob(os.path.join(HERE, 'seeded', '*', 'meta.json'))):
        name = os.path.basename(os.path.dirname(meta))
        m = json.load(open(meta))
        need = str(m.get('needs_to_manifest', ''))[:220].replace('|', '/').replace('\n', ' ')
        rnd = (int(name.split('-m')[1]) + 1) // 2
        prop = m['property'] + (f' (submitted for {m["submitted_for"]})' if m.get('submitted_for') else '')
        out.append(f'| {name} | {rnd} | {prop} | {verdict.get(name, "not run")} | {need} |')
    out += ['', '## Own mutants', '', '| mutant | check | result |', '|---|---|---|']
    for p in sorted(glob.glob(os.path.join(HERE, 'mutants', '*.patch'))):
        name = os.path.basename(p)
        out.append(f'| {name[:-6]} | {name.split("_")[0]} | {verdict.get(name, "not run")} |')
    c = sum(1 for v in verdict.values() if v == 'caught')
    out += ['', f'Total in this log: {c} caught of {len(verdict)}.', '']
    open(os.path.join(HERE, 'SENSITIVITY.md'), 'w').write('\n'.join(out))
    print('\n'.join(out[-3:]))


if __name__ == '__main__':
    main()
