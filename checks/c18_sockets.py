"""C18 - socket ports deliver exactly the complete messages before a disconnect."""
import select
import socket
import time

from hypothesis import strategies as st

import mido
import mido.ports as ports_mod
import mido.sockets as sockets_mod
from mido.sockets import PortServer, SocketPort, format_address, parse_address

from lib import refmidi as R
from lib import strategies as S
from lib.doubles import FakeSleep, SleepBudget, patched_sleep
from lib.harness import exc_sig, fail

PID = 'C18'
LEVEL = 'fault_enumeration'
RULE = ('socket.socketpair() gives a SocketPort and a raw peer. Hypothesis draws message lists (0-6 messages of all types, '
        'sysex up to 300 bytes), a segmentation of the byte stream and the placement of poll / iter_pending calls between '
        'segments; for each drawn list EVERY cut offset 0..len(stream) is enumerated (peer sends stream[:cut] in the drawn '
        'segments, then disconnects by close() or shutdown(SHUT_WR)); drains: for-loop, poll loop, iter_pending, blocking '
        'receive loop (mido.ports.sleep is a counted fake). Oracle: the port yields exactly the longest prefix of the list '
        'whose encodings fit in stream[:cut], in order and equal, iteration ends without exception, port.closed is true. '
        'Reverse direction: port.send(m) then the peer reads m\'s bytes. Close propagation: after port.close() the peer '
        'sees EOF (select; the 1 s timeout is only reached by a failing case). PortServer on 127.0.0.1:0 with 1-3 '
        'connect() clients each sending a list, some disconnecting right after a burst: every message is returned '
        '(multiset, per-client order) and no call exhausts the sleep budget (wall-clock deadline expiry = inconclusive). '
        'Addresses: all ports 1..65535 x a host grammar without ":", both directions. Non-trivial = a cut strictly inside '
        'an encoding with >= 1 complete message before it; distinct by (stream, cut, segmentation).'
        ' Later additions: every socket case under a thread watchdog; 70 000-message sessions (segmented and as'
        ' one backlog); after a half-close the port must release the connection; server close seen by every'
        ' connected client; a client sending one out-of-band byte; close() from a second thread while a reader'
        ' waits; broken pipe inside send().')
ASSUMPTIONS = ['AF_UNIX socketpair delivers synchronously, so segmentation and ordering are owned by the harness',
               'the TCP part asserts only timing-independent facts; a 5 s deadline expiry is reported as inconclusive']


def mk(d):
    return mido.Message(d['type'], **{k: v for k, v in d.items() if k != 'type'})


def expected_prefix(dicts, cut):
    n = 0
    pos = 0
    for d in dicts:
        pos += len(R.ref_encode(d))
        if pos <= cut:
            n += 1
        else:
            break
    return n


def check_cut(case):
    dicts = case['msgs']
    stream = [b for d in dicts for b in R.ref_encode(d)]
    cut = case['cut']
    data = bytes(stream[:cut])
    a, b = socket.socketpair()
    if case.get('conn_timeout'):
        # the connection handed to the port was made with a timeout (socket.create_connection(addr, timeout=...)):
        # an idle poll still returns at once and nothing but a disconnect ends the port
        a.settimeout(case['conn_timeout'])
    if case.get('bigbuf'):
        # room for the whole session in the kernel, so that everything is waiting before the first receive call
        b.setsockopt(socket.SOL_SOCKET, socket.SO_SNDBUF, 1 << 22)
        a.setsockopt(socket.SOL_SOCKET, socket.SO_RCVBUF, 1 << 22)
        b.settimeout(20.0)
    port = None
    out = []
    got = []
    fake = FakeSleep(budget=30)
    try:
        port = SocketPort('peer', 1, conn=a)
        with patched_sleep(fake):
            pos = 0
            bounds = sorted(set(min(x, len(data)) for x in case.get('segs', [])) | {len(data)})
            polls = set(case.get('polls', []))
            if case.get('conn_timeout'):
                t0 = time.time()
                idle = port.poll()
                if idle is not None or time.time() - t0 > max(0.15, case['conn_timeout'] / 2):
                    out.append(fail('idle-poll', f'poll() on an idle connection with a {case["conn_timeout"]} s timeout returned '
                                                 f'{idle!r} after {time.time() - t0:.2f} s', drain='poll'))
            for i, end in enumerate(bounds):
                if end > pos:
                    b.sendall(data[pos:end])
                    pos = end
                if i in polls:
                    got.extend(port.iter_pending() if i % 2 else _poll_all(port))
            if case.get('disc', 'close') == 'close':
                b.close()
            else:
                b.shutdown(socket.SHUT_WR)
            drain = case.get('drain', 'iterate')
            try:
                if drain == 'iterate':
                    for m in port:
                        got.append(m)
                        if len(got) > len(dicts) + 5:
                            break
                elif drain == 'poll':
                    got.extend(_poll_all(port))
                elif drain == 'iter_pending':
                    got.extend(port.iter_pending())
                    got.extend(port.iter_pending())
                else:
                    while True:
                        try:
                            got.append(port.receive())
                        except (OSError, ValueError):
                            break
                        if len(got) > len(dicts) + 5:
                            break
            except SleepBudget:
                out.append(fail('blocks-forever', f'{drain} did not end after the peer disconnected (cut={cut})',
                                drain=drain))
            except Exception as exc:  # noqa: BLE001
                out.append(fail('drain-raises', f'{drain} after disconnect at cut {cut}: {exc!r}', exc=exc_sig(exc),
                                drain=drain))
        n = expected_prefix(dicts, cut)
        want = [mk(d) for d in dicts[:n]]
        if len(got) != len(want) or any(type(g) is not mido.Message or not (g == w) for g, w in zip(got, want)):
            out.append(fail('delivered', f'cut={cut}/{len(stream)} segs={case.get("segs")} polls={case.get("polls")} '
                                         f'drain={case.get("drain")}: got {got!r}, expected {want!r}'[:900],
                            drain=case.get('drain', 'iterate')))
        if not out and not port.closed:
            out.append(fail('not-closed', f'port.closed is False after the peer disconnected (drain={case.get("drain")})'))
        if not out and case.get('disc', 'close') != 'close':
            # the peer only stopped SENDING (half-close) and is still listening: a port that has ended - and is then
            # closed explicitly as well - must have let go of the connection, i.e. the peer reads end-of-stream
            try:
                port.close()
                b.settimeout(2.0)
                rest = b.recv(16)
                if rest != b'':
                    out.append(fail('peer-not-disconnected', f'peer received {rest!r} from a port that only receives'))
            except socket.timeout:
                out.append(fail('peer-not-disconnected', 'the port reports closed (and close() was called) but its peer, '
                                                         'still listening after a half-close, never sees a disconnect'))
            except OSError as exc:
                if not isinstance(exc, ConnectionResetError):
                    out.append(fail('raises', f'peer recv after the port closed: {exc!r}', exc=exc_sig(exc)))
    except Exception as exc:  # noqa: BLE001
        out.append(fail('raises', f'{exc!r}', exc=exc_sig(exc)))
    finally:
        _cleanup(port, a, b)
    return out


def _poll_all(port):
    res = []
    while True:
        m = port.poll()
        if m is None:
            return res
        res.append(m)
        if len(res) > 300000:
            return res


def _cleanup(port, *socks):
    try:
        if port is not None:
            port.close()
    except Exception:  # noqa: BLE001
        pass
    for s in socks:
        try:
            s.close()
        except Exception:  # noqa: BLE001
            pass


def check_close_while_receiving(case):
    """One thread is blocked in a receiving loop with nothing pending; another thread closes the port. close() must
    return, the peer must see the disconnect and the loop must end (real threads, real time: generous bounds, a correct
    implementation needs a few milliseconds)."""
    import threading
    dicts = case['msgs']
    a, b = socket.socketpair()
    port = None
    out = []
    got = []
    box = {}
    try:
        port = SocketPort('peer', 1, conn=a)
        how = case.get('how', 'iterate')

        def reader():
            try:
                if how == 'iterate':
                    for m in port:
                        got.append(m)
                else:
                    while True:
                        got.append(port.receive())
            except (OSError, ValueError) as exc:
                box['ended'] = repr(exc)
            except Exception as exc:  # noqa: BLE001
                box['exc'] = exc
        for d in dicts:
            b.sendall(bytes(R.ref_encode(d)))
        rt = threading.Thread(target=reader, daemon=True)
        rt.start()
        until = time.time() + 5.0
        while len(got) < len(dicts) and time.time() < until:
            time.sleep(0.002)
        time.sleep(0.02)            # the reader is waiting for more now
        ct = threading.Thread(target=port.close, daemon=True)
        ct.start()
        ct.join(5.0)
        if ct.is_alive():
            out.append(fail('close-blocks', f'close() called while another thread waits in {how} has not returned after 5 s'))
        else:
            if not port.closed:
                out.append(fail('not-closed', 'closed flag not set by close()'))
            r, _, _ = select.select([b], [], [], 2.0)
            if not r or b.recv(10) != b'':
                out.append(fail('close-not-seen', 'peer sees no disconnect within 2 s after close() from a second thread'))
            rt.join(5.0)
            if rt.is_alive():
                out.append(fail('blocks-forever', f'{how} is still waiting 5 s after the port was closed by another thread',
                                drain=how))
        if 'exc' in box:
            out.append(fail('drain-raises', f'{how} ended with {box["exc"]!r}', exc=exc_sig(box['exc']), drain=how))
        want = [mk(d) for d in dicts]
        if not out and (len(got) != len(want) or any(not (g == w) for g, w in zip(got, want))):
            out.append(fail('delivered', f'got {got!r}, expected {want!r}'[:600], drain=how))
    except Exception as exc:  # noqa: BLE001
        out.append(fail('raises', f'{exc!r}', exc=exc_sig(exc)))
    finally:
        try:
            b.close()           # whatever happened: let a stuck reader see end-of-stream
        except OSError:
            pass
        _cleanup(None, a)
    return out


def check_send_close(case):
    dicts = case['msgs']
    a, b = socket.socketpair()
    port = None
    out = []
    try:
        port = SocketPort('peer', 1, conn=a)
        want = b''
        for d in dicts:
            port.send(mk(d))
            want += bytes(R.ref_encode(d))
        b.setblocking(False)
        got = b''
        while True:
            r, _, _ = select.select([b], [], [], 0)
            if not r:
                break
            chunk = b.recv(65536)
            if not chunk:
                break
            got += chunk
        if got != want:
            out.append(fail('send-bytes', f'peer read {list(got)[:40]}, expected {list(want)[:40]}'))
        port.close()
        if not port.closed:
            out.append(fail('not-closed', 'closed flag not set by close()'))
        r, _, _ = select.select([b], [], [], 1.0)
        if not r:
            out.append(fail('close-not-seen', 'peer does not become readable (no EOF) within 1 s after port.close()'))
        else:
            rest = b.recv(10)
            if rest != b'':
                out.append(fail('close-not-seen', f'peer read {rest!r} instead of EOF'))
        try:
            port.send(mido.Message('clock'))
            out.append(fail('send-after-close', 'send on a closed socket port did not raise'))
        except ValueError:
            pass
        port.close()
    except Exception as exc:  # noqa: BLE001
        out.append(fail('raises', f'{exc!r}', exc=exc_sig(exc)))
    finally:
        _cleanup(port, a, b)
    return out


def watchdog(fn, what, timeout=15.0, **facts):
    """A call that blocks in the operating system (socket.accept with nobody connecting, a blocking read with no data)
    cannot be seen by the counted fake sleep, so socket work runs in a daemon thread; if that thread is still alive after
    `timeout` seconds with its stack inside mido, the call is reported as blocked forever (with the frames). The data
    involved is tiny and local, so 15 s is three to four orders of magnitude more than a correct run needs."""
    import sys
    import threading
    import traceback
    box = {}

    def work():
        try:
            box['res'] = fn()
        except BaseException as exc:  # noqa: BLE001
            box['exc'] = exc
    t = threading.Thread(target=work, daemon=True)
    t.start()
    t.join(timeout)
    if t.is_alive():
        frame = sys._current_frames().get(t.ident)
        stack = traceback.extract_stack(frame) if frame is not None else []
        inside = [f'{fr.filename.split("/mido/")[-1]}:{fr.name}' for fr in stack if '/mido/' in fr.filename]
        return None, [fail('blocks-forever', f'{what}: still blocked after {timeout:.0f} s in {inside[-3:]}',
                           where=(inside[-1] if inside else '?'), **facts)]
    if 'exc' in box:
        raise box['exc']
    return box['res'], None


def check_brokenpipe(case):
    """The peer sends some messages and leaves; the port learns about it inside send() (broken pipe), the caller catches
    the OSError and goes on using the port: queued messages are still handed out, then everything stops cleanly."""
    dicts = case['msgs']
    taken = min(case.get('taken', 0), len(dicts))
    a, b = socket.socketpair()
    port = None
    out = []
    fake = FakeSleep(budget=30)
    try:
        port = SocketPort('peer', 1, conn=a)
        with patched_sleep(fake):
            b.sendall(bytes(x for d in dicts for x in R.ref_encode(d)))
            got = []
            if dicts:
                for _ in range(taken):
                    got.append(port.poll())       # takes everything readable into the queue, hands out `taken`
            b.close()
            errors = 0
            for _ in range(3):
                try:
                    port.send(mido.Message('note_on'))
                except OSError:
                    errors += 1
                    break
                except ValueError:
                    errors += 1
                    break
            if not errors:
                return []                         # the kernel accepted the writes: nothing to observe here
            if not port.closed:
                out.append(fail('not-closed', 'send() hit a broken pipe but port.closed stays False'))
            try:
                drain = case.get('drain', 'poll')
                if drain == 'iterate':
                    got.extend(port)
                else:
                    while True:
                        m = port.poll()
                        if m is None:
                            break
                        got.append(m)
                        if len(got) > len(dicts) + 3:
                            break
            except SleepBudget:
                out.append(fail('blocks-forever', 'draining after a broken pipe did not end'))
            except Exception as exc:  # noqa: BLE001
                out.append(fail('drain-raises', f'draining after a broken pipe in send(): {exc!r}', exc=exc_sig(exc),
                                drain=case.get('drain', 'poll')))
            want = [mk(d) for d in dicts] if taken or True else []
            if taken == 0:
                # nothing was taken in before the peer left; what send() / close() saw of the stream is unspecified
                want = got
            if len(got) != len(want) or any(not (g == w) for g, w in zip(got, want)):
                out.append(fail('delivered', f'after a broken pipe: got {got!r}, expected {want!r}'[:600], drain='brokenpipe'))
            try:
                port.send(mido.Message('clock'))
                out.append(fail('send-after-close', 'send on the closed port did not raise'))
            except ValueError:
                pass
            except Exception as exc:  # noqa: BLE001
                out.append(fail('send-after-close', f'send on the closed port raised {exc!r} instead of ValueError',
                                exc=exc_sig(exc)))
            try:
                port.close()
                with port:
                    pass
            except Exception as exc:  # noqa: BLE001
                out.append(fail('close-raises', f'close() after a broken pipe: {exc!r}', exc=exc_sig(exc)))
    except Exception as exc:  # noqa: BLE001
        out.append(fail('raises', f'{exc!r}', exc=exc_sig(exc)))
    finally:
        _cleanup(port, a, b)
    return out


def check_server(case):
    res, stuck = watchdog(lambda: _check_server(case), f'server (drain={case.get("drain")})',
                          drain=case.get('drain', 'poll'))
    if stuck:
        return stuck, 'ok'
    return res


def _check_server(case):
    """case['clients'] = [{'msgs': [...], 'close': bool}]; drain method in case['drain']."""
    out = []
    server = None
    clients = []
    raws = []
    deadline = time.time() + 5.0
    fake = FakeSleep(budget=1500)
    real_sleep = time.sleep

    def tick():
        real_sleep(0.0005)
    try:
        try:
            want_port = 0
            if case.get('fixed_port'):
                # the server listens where it was told to: a port number found free a moment ago
                probe = socket.socket(socket.AF_INET, socket.SOCK_STREAM)
                probe.bind(('127.0.0.1', 0))
                want_port = probe.getsockname()[1]
                probe.close()
            server = PortServer('127.0.0.1', want_port)
            host, portno = server._socket.getsockname()[:2]
            if want_port and (host, portno) != ('127.0.0.1', want_port):
                return [fail('server-address', f'PortServer("127.0.0.1", {want_port}) listens on {(host, portno)}')], 'ok'
        except OSError as exc:
            return [], f'skipped: cannot bind loop-back ({exc})'
        total = 0
        got = []
        if case.get('oob'):
            # a client that is not mido: it sends one byte of TCP urgent (out-of-band) data and then just stays
            # connected. Nothing has arrived IN the stream, so the server must neither deliver anything nor wait for it.
            raw = socket.create_connection(('127.0.0.1', portno), timeout=5)
            raws.append(raw)
            try:
                raw.send(b'!', socket.MSG_OOB)
            except OSError:
                pass
            with patched_sleep(fake):
                for _ in range(3):
                    m = server.poll()
                    if m is not None:
                        got.append(m)
        for ci, c in enumerate(case['clients']):
            cl = sockets_mod.connect('127.0.0.1', portno)
            clients.append(cl)
            if not case.get('late_send'):
                for d in c['msgs']:
                    cl.send(mk(d))
                    total += 1
                if c.get('close'):
                    cl.close()
            # the listen backlog is 1: let the server accept this connection before the next client connects
            # (accepting happens inside poll); whatever it already hands out is collected
            with patched_sleep(fake):
                try:
                    for _ in range(3):
                        m = server.poll()
                        if m is not None:
                            got.append(m)
                except SleepBudget:
                    return [fail('server-blocks-forever', 'server.poll() (non-blocking) exhausted the sleep budget',
                                 drain='poll')], 'ok'
        if case.get('late_send'):
            # all connections are accepted and the server's own queue is empty before anything is sent: a blocking
            # receive then has to find the message through its sub-ports
            for cl, c in zip(clients, case['clients']):
                for d in c['msgs']:
                    cl.send(mk(d))
                    total += 1
                if c.get('close'):
                    cl.close()
        drain = case.get('drain', 'poll')
        with patched_sleep(fake):
            fake.script.extend([tick] * 100000)
            while len(got) < total and time.time() < deadline:
                try:
                    if drain == 'poll':
                        m = server.poll()
                        if m is not None:
                            got.append(m)
                        else:
                            real_sleep(0.0005)
                    elif drain == 'iter_pending':
                        got.extend(server.iter_pending())
                        real_sleep(0.0005)
                    else:
                        got.append(server.receive())
                except SleepBudget:
                    out.append(fail('server-blocks-forever', f'server.{drain} exhausted the sleep budget with '
                                                             f'{total - len(got)} messages outstanding', drain=drain))
                    break
            # anything extra?
            if not out:
                for _ in range(20):
                    m = server.poll()
                    if m is not None:
                        got.append(m)
        if out:
            return out, 'ok'
        if len(got) < total:
            # distinguish "lost" from "slow": after the deadline every byte has long arrived on loop-back
            out.append(fail('server-lost-messages', f'server returned {len(got)} of {total} messages within 5 s: '
                                                    f'{got!r}'[:600], drain=drain))
            return out, 'ok'
        # per-client order and multiset
        want_all = []
        for ci, c in enumerate(case['clients']):
            want = [mk(d) for d in c['msgs']]
            want_all += want
            mine = [m for m in got if getattr(m, 'channel', None) == ci and m.type == 'note_on'] if c.get(
                'tagged', True) else None
            if mine is not None and mine != [w for w in want if w.type == 'note_on']:
                out.append(fail('server-order', f'client {ci}: {mine!r} != {want!r}'[:600], drain=drain))
        key = lambda m: (m.type, tuple(sorted((k, str(v)) for k, v in vars(m).items())))  # noqa: E731
        if sorted(map(key, got)) != sorted(map(key, want_all)):
            out.append(fail('server-multiset', f'got {got!r} expected (any interleaving of) {want_all!r}'[:800],
                            drain=drain))
        # closing the server port is seen as a disconnect by every client that is still connected
        if not out:
            server.close()
            for ci, (cl, c) in enumerate(zip(clients, case['clients'])):
                if c.get('close'):
                    continue
                until = time.time() + 2.0
                while not cl.closed and time.time() < until:
                    cl.poll()
                    if not cl.closed:
                        real_sleep(0.002)
                if not cl.closed:
                    out.append(fail('server-close-not-seen', f'client {ci} of {len(clients)} is still connected 2 s after '
                                                             f'the server port was closed', client=ci))
                    break
    except Exception as exc:  # noqa: BLE001
        out.append(fail('raises', f'{exc!r}', exc=exc_sig(exc)))
    finally:
        for raw in raws:
            _cleanup(None, raw)
        for cl in clients:
            _cleanup(cl)
        try:
            if server is not None:
                server.close()
                for p in server.ports:
                    p.close()
        except Exception:  # noqa: BLE001
            pass
    return out, 'ok'


HOSTS = ['', 'localhost', '127.0.0.1', 'a-b.example.org', 'x', 'HOST_1', '0']


def check_address(host, lo, hi):
    import os
    out = []
    for p in range(lo, hi, 37 if os.environ.get('VERIF_CHILD') else 1):
        try:
            s = format_address(host, p)
            back = parse_address(s)
            if back != (host, p) or s != f'{host}:{p}':
                out.append(fail('address-roundtrip', f'format_address({host!r}, {p}) = {s!r} -> {back!r}'))
                break
            if format_address(*parse_address(f'{host}:{p}')) != f'{host}:{p}':
                out.append(fail('address-roundtrip', f'{host}:{p} does not survive parse+format'))
                break
        except Exception as exc:  # noqa: BLE001
            out.append(fail('address-raises', f'{host!r}, {p}: {exc!r}', exc=exc_sig(exc)))
            break
    return out


def run_case(case):
    k = case['kind']
    if k == 'cut':
        res, stuck = watchdog(lambda: check_cut(case), f'socket port, cut={case["cut"]} drain={case.get("drain")}',
                              timeout=case.get('timeout', 5.0), drain=case.get('drain', 'iterate'))
        return stuck or res
    if k == 'send':
        res, stuck = watchdog(lambda: check_send_close(case), 'send/close', timeout=5.0)
        return stuck or res
    if k == 'close-while-receiving':
        return check_close_while_receiving(case)
    if k == 'server':
        return check_server(case)[0]
    if k == 'brokenpipe':
        res, stuck = watchdog(lambda: check_brokenpipe(case), 'broken pipe', timeout=5.0)
        return stuck or res
    if k == 'address':
        return check_address(case['host'], case['lo'], case['hi'])
    raise KeyError(k)


def nontrivial(case):
    k = case['kind']
    if k == 'cut':
        pos = 0
        n = 0
        for d in case['msgs']:
            ln = len(R.ref_encode(d))
            if pos < case['cut'] < pos + ln and n >= 1:
                return True
            pos += ln
            n += 1
        return False
    if k == 'server':
        return sum(len(c['msgs']) for c in case['clients']) >= 2
    return True


@st.composite
def base_lists(draw):
    msgs = draw(st.lists(S.msg_dict(time=st.just(0), max_sysex=300), max_size=6))
    total = sum(len(R.ref_encode(d)) for d in msgs)
    segs = draw(st.lists(st.integers(0, max(total, 1)), max_size=5))
    polls = draw(st.lists(st.integers(0, 6), max_size=4, unique=True))
    return {'msgs': msgs, 'segs': segs, 'polls': polls, 'disc': draw(st.sampled_from(['close', 'shutdown'])),
            'drain': draw(st.sampled_from(['iterate', 'iterate', 'poll', 'iter_pending', 'receive']))}


def hyp_shard(rec, shard):
    block, k, n = shard
    if block == 'cut':
        def body(base):
            total = sum(len(R.ref_encode(d)) for d in base['msgs'])
            cuts = range(total + 1)
            if total > 80:
                # long sysex: every offset near each message boundary, plus a stride through the payload
                marks = set()
                pos = 0
                for d in base['msgs']:
                    ln = len(R.ref_encode(d))
                    marks |= {pos + o for o in (0, 1, 2, ln - 2, ln - 1) if 0 <= pos + o <= total}
                    marks |= set(range(pos, pos + ln, 17))
                    pos += ln
                marks.add(total)
                cuts = sorted(marks)
            for c in cuts:
                case = {'kind': 'cut', **base, 'cut': c}
                unknown = rec.run(case, sample=(c == 3))
                if unknown:
                    return unknown
            return []
        rec.hyp(base_lists(), n, body=body, seed_offset=k)
    elif block == 'send':
        strat = st.fixed_dictionaries({'kind': st.just('send'),
                                       'msgs': st.lists(S.msg_dict(time=st.just(0), max_sysex=300), max_size=6)})
        rec.hyp(strat, n, seed_offset=100 + k)


def server_cases(tier):
    out = []
    def notes(ci, n, off=0):  # noqa: E306
        return [{'type': 'note_on', 'channel': ci, 'note': (off + i) % 128, 'velocity': 1 + i % 100, 'time': 0}
                for i in range(n)]
    for drain in ('poll', 'iter_pending', 'receive'):
        out.append({'kind': 'server', 'drain': drain, 'clients': [{'msgs': notes(0, 1)}]})
        out.append({'kind': 'server', 'drain': drain, 'clients': [{'msgs': notes(0, 3)}, {'msgs': notes(1, 2)}]})
        out.append({'kind': 'server', 'drain': drain,
                    'clients': [{'msgs': notes(0, 4), 'close': True}, {'msgs': notes(1, 2)}]})
        out.append({'kind': 'server', 'drain': drain,
                    'clients': [{'msgs': notes(0, 2)}, {'msgs': notes(1, 5), 'close': True},
                                {'msgs': notes(2, 1) + [{'type': 'sysex', 'data': list(range(40)), 'time': 0}]}]})
    out += [dict(c, late_send=True) for c in out]
    out += [dict(c, oob=True) for c in out if len(c['clients']) == 2]
    out += [dict(c, fixed_port=True) for c in out[:3]]
    return out


def brokenpipe_cases():
    def notes(n):
        return [{'type': 'note_on', 'channel': 0, 'note': i, 'velocity': 1 + i, 'time': 0} for i in range(n)]
    for n in (1, 2, 3, 5):
        for taken in range(1, n + 1):
            for drain in ('poll', 'iterate'):
                yield {'kind': 'brokenpipe', 'msgs': notes(n), 'taken': taken, 'drain': drain}


def address_shard(rec, shard):
    host, lo, hi = shard
    fs = check_address(host, lo, hi)
    rec.evals += hi - lo
    rec.classes['address'] += hi - lo
    if fs:
        rec.check({'kind': 'address', 'host': host, 'lo': lo, 'hi': hi}, sample=False)
        rec.evals -= 1
    elif lo == 1:
        rec.samples.append({'kind': 'address', 'host': host, 'lo': 8080, 'hi': 8081})


def main(ctx):
    n = 480 if ctx.tier == 'quick' else 32000
    w = 8 if ctx.tier == 'quick' else 16
    ctx.pmap('hyp_shard', [('cut', k, n // w if n >= w else 1) for k in range(w)] + [('send', k, n // 4) for k in range(2)])
    ctx.pmap('address_shard', [(h, lo, min(lo + 8192, 65536)) for h in HOSTS for lo in range(1, 65536, 8192)])
    # invalid addresses are refused
    for bad in ('', ':', 'host', 'a:b:c', 'host:0', 'host:65536', 'host:-1', 'host:x', 'host:1.5'):
        try:
            r = parse_address(bad)
            ctx.violations.append(({'kind': 'address-invalid', 'text': bad},
                                   [fail('address-invalid-accepted', f'parse_address({bad!r}) -> {r!r}')]))
        except ValueError:
            pass
    # a long session (more than 2**16 messages, more than 2**17 bytes) before the peer leaves in mid-message
    long_msgs = [{'type': 'note_on', 'channel': i % 16, 'note': (i // 16) % 128, 'velocity': 1 + (i // 2048) % 127, 'time': 0}
                 for i in range(70000)]
    nb = 3 * len(long_msgs)
    for drain in ('iterate', 'poll'):
        ctx.check({'kind': 'cut', 'msgs': long_msgs, 'cut': nb - 1, 'segs': list(range(30000, nb, 30000)),
                   'polls': list(range(0, 8)), 'drain': drain, 'timeout': 120.0}, classes=('volume',), sample=False)
        # ... and the same session arriving as one backlog (nothing received until the peer has left)
        ctx.check({'kind': 'cut', 'msgs': long_msgs, 'cut': nb - 1, 'segs': [], 'polls': [], 'drain': drain,
                   'timeout': 120.0, 'bigbuf': True}, classes=('volume',), sample=False)
    for case in brokenpipe_cases():
        ctx.check(case, classes=('broken-pipe',), sample=False)
    tmsgs = [{'type': 'note_on', 'channel': 0, 'note': i, 'velocity': 9, 'time': 0} for i in range(3)]
    for drain in ('iterate', 'poll', 'iter_pending', 'receive'):
        for cut in (0, 4, 9):
            ctx.check({'kind': 'cut', 'msgs': tmsgs, 'cut': cut, 'segs': [3], 'polls': [0, 1], 'drain': drain,
                       'conn_timeout': 0.6}, classes=('connection-with-timeout',), sample=False)
    for how in ('iterate', 'receive'):
        for n in (0, 2):
            ctx.check({'kind': 'close-while-receiving', 'how': how,
                       'msgs': [{'type': 'note_on', 'channel': 0, 'note': i, 'velocity': 9, 'time': 0} for i in range(n)]},
                      classes=('close-from-another-thread',), sample=False)
    try:
        probe = socket.socket(socket.AF_INET, socket.SOCK_STREAM)
        probe.bind(('127.0.0.1', 0))
        probe.close()
        loopback = True
    except OSError:
        loopback = False
    if loopback:
        for rep in range(1 if ctx.tier == 'quick' else 5):
            for case in server_cases(ctx.tier):
                ctx.check(case, classes=('server',), sample=(len(case['clients']) == 2 and rep == 0))
    ctx.extra['portserver_subcheck'] = 'ran' if loopback else 'skipped (no loop-back interface)'
