"""atheris (libFuzzer) target with the property oracle inside.

    /venv/bin/python fuzz/target.py <PID> <replay-out.json> [libFuzzer args ... corpus_dir]

The raw bytes are decoded into the same case dictionaries the Hypothesis checks use and judged by the same
run_case(); a failure that is not a recorded finding is written to <replay-out.json> and stops the campaign.
State is reset at the top of every iteration by run_case itself (the targets used here are stateless).
"""
import json
import os
import sys

HERE = os.path.dirname(os.path.dirname(os.path.abspath(__file__)))
sys.path.insert(0, HERE)

import atheris  # noqa: E402

with atheris.instrument_imports(include=['mido']):
    import mido  # noqa: F401

from lib import harness  # noqa: E402

PID = sys.argv[1]
OUT = sys.argv[2]

if PID == 'C02':
    from checks import c02_from_bytes as mod

    def to_case(data):
        if data[:1] == b'\xff' and len(data) > 1:
            # from_hex path: the rest is the text
            return {'seq': None, 'via': 'from_hex', 'text': data[1:].decode('latin1')} if not _hexok(data[1:]) else \
                {'seq': list(bytes.fromhex(data[1:].decode('ascii'))), 'via': 'from_hex', 'text': data[1:].decode('ascii')}
        return {'seq': list(data), 'cont': 'bytes' if len(data) % 2 else 'list'}

    def _hexok(b):
        try:
            bytes.fromhex(b.decode('ascii'))
            return True
        except (ValueError, UnicodeDecodeError):
            return False
elif PID == 'C04':
    from checks import c04_parser_sound as mod

    def to_case(data):
        return {'data': list(data), 'entry': 'feed_byte' if len(data) % 3 == 0 else 'parse_all', 'cont': 'list'}
elif PID == 'C07':
    from checks import c07_file_roundtrip as mod

    def to_case(data):
        return {'kind': 'bytes', 'bytes': list(data)}
elif PID == 'C08':
    from checks import c08_smf_conformance as mod

    def to_case(data):
        # structure-aware: the fuzzer's bytes are the header fields and the track BODIES; chunk framing (lengths, the
        # closing end_of_track) is added here, so that mutations explore event encodings instead of dying on a length
        import struct
        if len(data) < 4 or data[:4] == b'MThd':
            return {'kind': 'bytes', 'bytes': list(data)}
        fmt = data[0] % 3
        ntr = 1 if fmt == 0 else 1 + data[1] % 3
        extra = data[1] >> 6
        tpb = ((data[2] << 8 | data[3]) % 0x7FFF) + 1
        body = data[4:]
        step = (len(body) + ntr - 1) // ntr if body else 0
        out = b'MThd' + struct.pack('>IHHH', 6 + extra, fmt, ntr, tpb) + bytes(extra)
        for k in range(ntr):
            part = body[k * step:(k + 1) * step] + b'\x00\xff\x2f\x00'
            out += b'MTrk' + struct.pack('>I', len(part)) + part
        return {'kind': 'bytes', 'bytes': list(out)}
elif PID == 'C14':
    from checks import c14_text as mod

    def to_case(data):
        return {'kind': 'arbitrary', 'text': data.decode('utf-8', errors='replace')}
else:
    raise SystemExit('no fuzz target for ' + PID)

rec = harness.Recorder(mod)
COUNT = [0]


def TestOneInput(data):
    COUNT[0] += 1
    case = to_case(data)
    try:
        unknown = rec.run(case, nontrivial=False, sample=False)
    except harness.HarnessError as exc:
        with open(OUT, 'w') as f:
            json.dump({'harness_error': str(exc)[:2000]}, f)
        raise
    if unknown:
        with open(OUT, 'w') as f:
            json.dump({'property': PID, 'case': case, 'failures': unknown}, f, default=harness.jdefault)
        raise RuntimeError('property violated: ' + unknown[0]['sig'])


atheris.Setup([sys.argv[0]] + sys.argv[3:], TestOneInput)
atheris.Fuzz()
