#!/bin/sh
# Run every quick check at several seeds on the unchanged tree; any VIOLATION / harness error here is a false alarm
# (or a genuine defect) to investigate before the check is trusted.   usage: tools/seed_sweep.sh "2 3 4 5" [tier]
cd "$(dirname "$0")/.." || exit 2
SEEDS="${1:-2 3 4 5 6 7 8 9}"
TIER="${2:-quick}"
bad=0
for s in $SEEDS; do
  for p in 01 02 03 04 05 06 07 08 09 10 11 12 13 14 15 16 17 18 19 20; do
    out=$(VERIF_SEED=$s ./check C$p --tier "$TIER" 2>&1); rc=$?
    if [ $rc -ne 0 ]; then bad=1; echo "== seed $s C$p rc=$rc"; echo "$out" | tail -6; fi
  done
  echo "seed $s done"
done
exit $bad
