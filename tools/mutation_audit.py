#!/usr/bin/env python3
"""Sensitivity self-test: apply one patch to a scratch copy of the repository and run a property's check on it.

    tools/mutation_audit.py <PID> <patch.diff> [--reverse] [--tier quick|thorough] [--seed N]
    tools/mutation_audit.py --all            # every seeded/<name>/ and mutants/<PID>_*.patch; prints a table

The copy lives in a fresh temporary directory (outside /repo and /verif) and is deleted afterwards.
Expected result for a mutant: exit status 1 (VIOLATION).  Exit status of this tool: 0 caught, 1 missed, 2 error.
"""
import argparse
import glob
import json
import os
import shutil
import subprocess
import sys
import tempfile

HERE = os.path.dirname(os.path.dirname(os.path.abspath(__file__)))
REPO = os.environ.get('MIDO_REPO_SRC', '/repo')


def run_one(pid, patch, reverse=False, tier='quick', seed='1', verbose=True):
    tmp = tempfile.mkdtemp(prefix='mido_mut_')
    try:
        dst = os.path.join(tmp, 'repo')
        subprocess.run(['git', 'clone', '-q', '--no-hardlinks', REPO, dst], check=True)
        # carry uncommitted edits of tracked files as well (the checks look at the working tree)
        diff = subprocess.run(['git', '-C', REPO, 'diff', 'HEAD'], capture_output=True, text=True).stdout
        if diff.strip():
            subprocess.run(['git', '-C', dst, 'apply'], input=diff, text=True, check=True)
        cmd = ['git', '-C', dst, 'apply']
        if reverse:
            cmd.append('-R')
        r = subprocess.run(cmd + [os.path.abspath(patch)], capture_output=True, text=True)
        if r.returncode != 0:
            print(f'patch does not apply: {patch}: {r.stderr.strip()}')
            return 2, ''
        env = dict(os.environ, MIDO_REPO=dst, VERIF_SEED=str(seed), VERIF_AUDIT='1')
        p = subprocess.run([os.path.join(HERE, 'check'), pid, '--tier', tier], capture_output=True, text=True, env=env)
        out = p.stdout + p.stderr
        if verbose:
            tail = [ln for ln in out.splitlines() if ln.startswith(('VIOLATION', '  failure', '[', 'harness', 'KNOWN'))]
            print('\n'.join(tail[-8:]))
        return p.returncode, out
    finally:
        shutil.rmtree(tmp, ignore_errors=True)


def main():
    ap = argparse.ArgumentParser()
    ap.add_argument('pid', nargs='?')
    ap.add_argument('patch', nargs='?')
    ap.add_argument('--reverse', action='store_true')
    ap.add_argument('--tier', default='quick')
    ap.add_argument('--seed', default='1')
    ap.add_argument('--all', action='store_true')
    ap.add_argument('--only')
    ap.add_argument('--kind', default='all', choices=['all', 'seeded', 'mutants'])
    ap.add_argument('--shard', default='0/1', help='k/n: only every n-th item starting at k (parallel audits)')
    ap.add_argument('--skip-log', help='log of an earlier, interrupted audit: items it lists as caught are not run again')
    args = ap.parse_args()
    if not args.all:
        rc, _ = run_one(args.pid, args.patch, args.reverse, args.tier, args.seed)
        print('caught' if rc == 1 else ('MISSED' if rc == 0 else f'error rc={rc}'))
        return 0 if rc == 1 else (1 if rc == 0 else 2)
    rows = []
    items = []
    for meta in sorted(glob.glob(os.path.join(HERE, 'seeded', '*', 'meta.json'))) if args.kind != 'mutants' else []:
        d = os.path.dirname(meta)
        m = json.load(open(meta))
        items.append((m['property'], os.path.join(d, 'patch.diff'), os.path.basename(d), False))
    for p in sorted(glob.glob(os.path.join(HERE, 'mutants', '*.patch'))) if args.kind != 'seeded' else []:
        name = os.path.basename(p)
        items.append((name.split('_')[0], p, name, name.endswith('.rev.patch')))
    k, n = (int(x) for x in args.shard.split('/'))
    if args.skip_log:
        import re
        done = {nm for _, nm, v in re.findall(r'^(C\d+) (\S+)\s+(caught)\s*$', open(args.skip_log).read(), re.M)}
        items = [it for it in items if it[2] not in done]
    for idx, (pid, patch, name, rev) in enumerate(items):
        if idx % n != k:
            continue
        if args.only and args.only not in (pid, name):
            continue
        rc, _ = run_one(pid, patch, reverse=rev, tier=args.tier, seed=args.seed, verbose=False)
        verdict = {1: 'caught', 0: 'MISSED'}.get(rc, f'error({rc})')
        rows.append((pid, name, verdict))
        print(f'{pid} {name:40s} {verdict}', flush=True)
    missed = [r for r in rows if r[2] != 'caught']
    print(f'{len(rows) - len(missed)}/{len(rows)} caught')
    return 1 if missed else 0


if __name__ == '__main__':
    sys.exit(main())
