"""C09 - the meta message codec accepts and preserves every documented value."""
import io

from hypothesis import strategies as st

import mido
from lib import refmeta as M
from lib import refmidi as R
from lib import refsmf as F
from lib import strategies as S
from lib.harness import exc_sig, fail
from lib.vals import T, dec

PID = 'C09'
LEVEL = 'exploration'
RULE = ('Exhaustive over the finite documented domains: all 256 power-of-two denominators, 30 keys, 65,536 sequence '
        'numbers, 256 channel_prefix and 256 midi_port values, 4 frame rates x limits of hours/minutes/seconds/frames/'
        'sub_frames, time-signature fields at 0/1/254/255, tempo limits plus random, the 8 text types x lengths '
        '0,1,127,128,129,16383,16384 (thorough: 999,999 / 1,000,000 accepted, 1,000,001 refused by the reader) x latin-1 '
        'content incl. 00/7F/80/FF, sequencer data of those lengths; entry points constructor and attribute assignment. '
        'Outside values: each limit +-1, non-powers of two (3, 6, 2**k+-1, 3*2**k, 0, negative, 2**256), wrong types, '
        'unknown keys / frame rates / attribute names. Oracle: accepted => bytes()==FF,type,minimal VLQ,reference payload '
        '(all items ints 0..255), MetaMessage.from_bytes(bytes())==message, and the same bytes placed in a track by the '
        'reference SMF encoder with delta d load to the message with time d; documented values must be accepted; outside '
        'values must raise ValueError/TypeError and leave an existing object unchanged. Non-trivial = a non-default value; '
        'distinct by (type, attributes).')
ASSUMPTIONS = ['text is drawn from latin-1 encodable characters (charsets: C17)',
               'frame_rate floats equal to a listed integer rate (24.0) are not judged']

OKEXC = (ValueError, TypeError, BytesWarning)     # (BytesWarning: a bytes value compared with str under python -bb)


def _domain_ok(t, name, enc):
    if t not in M.META or name not in M.attr_names(t) + ['time']:
        return False
    v = dec(enc)
    if name == 'time':
        return isinstance(v, (int, float)) and not isinstance(v, bool)
    return M.value_ok(t, name, v)


def _expect_dict(t, attrs):
    d = M.default_meta(t)
    for n, e in attrs.items():
        v = dec(e)
        d[n] = list(v) if n == 'data' else v
    return d


def check_meta(case):
    t = case['type']
    attrs = case['attrs']
    via = case.get('via', 'ctor')
    ok = all(_domain_ok(t, n, e) for n, e in attrs.items())
    facts = dict(type=t, via=via, attr=next(iter(attrs), '-'))
    msg = None
    try:
        if via == 'ctor':
            msg = mido.MetaMessage(t, **{n: dec(e) for n, e in attrs.items()})
        else:
            msg = mido.MetaMessage(t)
            for n, e in attrs.items():
                before = dict(vars(msg))
                try:
                    setattr(msg, n, dec(e))
                except Exception:
                    after = dict(vars(msg))
                    if after != before or any(type(after[k]) is not type(before[k]) for k in before):
                        return [fail('changed-by-rejected-assignment', f'{t}.{n}={e!r}: {before} -> {after}', **facts)]
                    raise
    except OKEXC as exc:
        if ok:
            return [fail('rejects-documented-value', f'{t} {attrs}: {exc!r}', **facts)]
        return []
    except AttributeError as exc:
        if ok:
            return [fail('rejects-documented-value', f'{t} {attrs}: {exc!r}', **facts)]
        if via == 'setattr' and any(n not in M.attr_names(t) + ['time'] for n in attrs):
            return []            # unknown attribute name on assignment
        return [fail('wrong-exception', f'{t} {attrs}: {exc!r}', exc=exc_sig(exc), **facts)]
    except Exception as exc:  # noqa: BLE001
        return [fail('wrong-exception', f'{t} {attrs}: {exc!r}', exc=exc_sig(exc), **facts)]
    if not ok:
        return [fail('accepts-invalid', f'{t} {attrs} accepted -> {msg!r}'[:400], **facts)]
    d = _expect_dict(t, attrs)
    out = []
    try:
        b = msg.bytes()
    except Exception as exc:  # noqa: BLE001
        return [fail('bytes-raises', f'{t} {attrs}: {exc!r}', exc=exc_sig(exc), **facts)]
    want = M.encode({**d, 'time': 0})
    if any(not 0 <= x <= 255 for x in want):
        return out + [fail('unrepresentable', f'{t} {attrs}: accepted, but the documented value has no SMF encoding '
                                              f'(reference payload {want[:8]}); bytes()={b[:8]}', **facts)]
    if not isinstance(b, list) or any(type(x) is not int or not 0 <= x <= 255 for x in b):
        out.append(fail('bytes-items', f'{t}: non-byte item in {b[:12]}', **facts))
    if b != want:
        out.append(fail('layout', f'{t} {str(attrs)[:100]}: bytes()={b[:14]} reference={want[:14]} (len {len(b)}/{len(want)})',
                        **facts))
    tm = dec(attrs.get('time', 0))
    d0 = dict(d)
    d0['time'] = 0
    for conv in (list, bytes, tuple, bytearray):
        try:
            r = mido.MetaMessage.from_bytes(conv(want))
        except Exception as exc:  # noqa: BLE001
            out.append(fail('from_bytes-raises', f'{t} {str(attrs)[:100]} via {conv.__name__}: {exc!r}',
                            exc=exc_sig(exc), **facts))
            continue
        why = M.same(r, d0)
        if why is None and not (r == msg.copy(time=0)):
            why = 'not equal under =='
        if why:
            out.append(fail('from_bytes-differs', f'{t} {str(attrs)[:100]} via {conv.__name__}: {why}', **facts))
            break
    try:
        a = mido.MetaMessage.from_bytes(list(want))
        b2 = mido.MetaMessage.from_bytes(list(want))
        a.time = 31337
        if a is b2 or b2.time == 31337:
            out.append(fail('decode-shared', f'{t}: two decodes of the same bytes share state', **facts))
    except Exception:  # noqa: BLE001
        pass
    delta = case.get('delta', 0)
    dd = dict(d)
    dd['time'] = delta
    track = [dd] + ([] if t == 'end_of_track' else [{'type': 'end_of_track', 'time': 0}])
    fb, _ = F.encode_file(1, 480, [track])
    try:
        mid = mido.MidiFile(file=io.BytesIO(fb))
        r = mid.tracks[0][0]
        why = M.same(r, dd)
        if why is None and not (r == msg.copy(time=delta)):
            why = 'not equal under =='
        if why:
            out.append(fail('track-differs', f'{t} {str(attrs)[:100]} delta={delta}: {why}', **facts))
        # a file object may hand out fewer bytes than asked for (raw files, pipes; round 13: the payload fetched with one
        # read(size)); the header reads of the pinned reader need 8 bytes at once, so the cap is never below that
        rs = mido.MidiFile(file=_ShortReads(fb, 8 + len(fb) % 23)).tracks[0][0]
        why = M.same(rs, dd)
        if why:
            out.append(fail('track-differs', f'{t} {str(attrs)[:100]} read through short reads: {why}', short='True', **facts))
        # clip=True only concerns data bytes of channel / sysex messages: a meta payload is not touched
        rc = mido.MidiFile(file=io.BytesIO(fb), clip=True).tracks[0][0]
        why = M.same(rc, dd)
        if why:
            out.append(fail('track-differs', f'{t} {str(attrs)[:100]} read with clip=True: {why}', clip='True', **facts))
    except Exception as exc:  # noqa: BLE001
        out.append(fail('track-raises', f'{t} {str(attrs)[:100]}: {exc!r}', exc=exc_sig(exc), **facts))
    del tm
    return out


class _ShortReads:
    """Binary file object whose read(n) returns at most `cap` bytes per call."""

    def __init__(self, data, cap):
        self._f = io.BytesIO(bytes(data))
        self._cap = cap

    def read(self, size=-1):
        if size is None or size < 0 or size > self._cap:
            size = self._cap
        return self._f.read(size)

    def tell(self):
        return self._f.tell()


def check_unknown(case):
    tb, data, delta = case['type_byte'], case['data'], case.get('delta', 0)
    facts = dict(type='unknown_meta')
    try:
        if case.get('omit_data') and not data:
            msg = mido.UnknownMetaMessage(tb)           # data is optional: an empty payload
        else:
            msg = mido.UnknownMetaMessage(tb, data=dec(case.get('data_as', data)) if 'data_as' in case else data)
        b = msg.bytes()
    except Exception as exc:  # noqa: BLE001
        return [fail('unknown-raises', f'{tb} {data[:8]}: {exc!r}', exc=exc_sig(exc), **facts)]
    d = {'type': 'unknown_meta', 'type_byte': tb, 'data': list(data), 'time': 0}
    want = M.encode(d)
    out = []
    if b != want:
        out.append(fail('layout', f'unknown meta {tb}: bytes()={b[:12]} reference={want[:12]}', **facts))
    try:
        r = mido.MetaMessage.from_bytes(want)
        why = M.same(r, d)
        if why is None and not (r == msg):
            why = 'not equal under =='
        if why:
            out.append(fail('from_bytes-differs', f'unknown meta {tb}: {why}', **facts))
    except Exception as exc:  # noqa: BLE001
        out.append(fail('from_bytes-raises', f'unknown meta {tb}: {exc!r}', exc=exc_sig(exc), **facts))
    dd = dict(d, time=delta)
    fb, _ = F.encode_file(1, 480, [[dd, {'type': 'end_of_track', 'time': 0}]])
    try:
        r = mido.MidiFile(file=io.BytesIO(fb)).tracks[0][0]
        why = M.same(r, dd)
        if why:
            out.append(fail('track-differs', f'unknown meta {tb} delta={delta}: {why}', **facts))
    except Exception as exc:  # noqa: BLE001
        out.append(fail('track-raises', f'unknown meta {tb}: {exc!r}', exc=exc_sig(exc), **facts))
    return out


def check_big_from_bytes(n):
    """from_bytes is not bound by the file reader's limit: a payload whose length needs a four-byte quantity."""
    text = 'q' * n
    try:
        msg = mido.MetaMessage('text', text=text)
        b = msg.bytes()
        want_head = [0xFF, 0x01] + M.vlq(n)
        if b[:len(want_head)] != want_head or len(b) != len(want_head) + n:
            return [fail('layout', f'text of {n} bytes: header {b[:8]}, expected {want_head}', type='text')]
        for cont in (list, bytes):
            back = mido.MetaMessage.from_bytes(cont(b))
            if back.type != 'text' or back.text != text:
                return [fail('from_bytes-differs', f'text of {n} bytes comes back as {back.type} with {len(back.text)} chars',
                             type='text')]
    except Exception as exc:  # noqa: BLE001
        return [fail('from_bytes-raises', f'text of {n} bytes: {exc!r}', exc=exc_sig(exc), type='text')]
    return []


def check_custom_spec():
    """The documented extension hook (docs/meta_message_types.rst, "Implementing New or Custom Meta Messages"): a spec
    registered with add_meta_spec encodes, decodes from bytes and loads from a track like a built-in one. The
    registration is undone afterwards."""
    import mido.midifiles.meta as meta_mod
    out = []

    class MetaSpec_light_color(meta_mod.MetaSpec):
        type_byte = 0x6a
        attributes = ['r', 'g', 'b']
        defaults = [0, 0, 0]

        def decode(self, message, data):
            (message.r, message.g, message.b) = data

        def encode(self, message):
            return [message.r, message.g, message.b]

        def check(self, name, value):
            if not isinstance(value, int):
                raise TypeError(f'{name} must be an integer')
            if not 0 <= value <= 255:
                raise ValueError(f'{name} must be in range 0..255')
    tables = [(name, dict(obj)) for name, obj in vars(meta_mod).items()
              if isinstance(obj, dict) and name.startswith('_META')]
    try:
        meta_mod.add_meta_spec(MetaSpec_light_color)
        m = mido.MetaMessage('light_color', r=1, g=200, b=255, time=7)
        b = m.bytes()
        if b != [0xFF, 0x6a, 3, 1, 200, 255]:
            out.append(fail('layout', f'custom meta bytes {b}', type='custom'))
        back = mido.MetaMessage.from_bytes(b)
        if type(back) is not mido.MetaMessage or back.type != 'light_color' or (back.r, back.g, back.b) != (1, 200, 255):
            out.append(fail('from_bytes-differs', f'custom meta from_bytes -> {back!r}', type='custom'))
        raw = bytes([0x4d, 0x54, 0x68, 0x64, 0, 0, 0, 6, 0, 1, 0, 1, 1, 0xe0, 0x4d, 0x54, 0x72, 0x6b, 0, 0, 0, 11,
                     7, 0xFF, 0x6a, 3, 1, 200, 255, 0, 0xFF, 0x2F, 0])
        for clip in (False, True):
            loaded = mido.MidiFile(file=io.BytesIO(raw), clip=clip).tracks[0][0]
            if type(loaded) is not mido.MetaMessage or loaded.type != 'light_color' or loaded.time != 7 or not (loaded == m):
                out.append(fail('track-differs', f'custom meta read from a track (clip={clip}) -> {loaded!r}', type='custom'))
        try:
            mido.MetaMessage('light_color', r=256)
            out.append(fail('accepts-invalid', 'custom meta check() not applied', type='custom'))
        except (ValueError, TypeError):
            pass
    except Exception as exc:  # noqa: BLE001
        out.append(fail('raises', f'custom meta spec: {exc!r}', exc=exc_sig(exc), type='custom'))
    finally:
        for name, before in tables:
            cur = getattr(meta_mod, name)
            for k in list(cur):
                if k not in before:
                    del cur[k]
        for name, obj in list(vars(meta_mod).items()):
            if isinstance(obj, dict) and name.startswith('_') and not any(name == t for t, _ in tables):
                for k in (0x6a, 'light_color'):
                    obj.pop(k, None)
    return out


def run_case(case):
    if case.get('kind') == 'big-from-bytes':
        return check_big_from_bytes(case['n'])
    if case.get('kind') == 'custom-spec':
        return check_custom_spec()
    if case.get('kind') == 'reader-limit':
        return check_reader_limit(case['n'])
    if case.get('kind') == 'unknown':
        return check_unknown(case)
    return check_meta(case)


def check_reader_limit(n):
    """A text payload of n bytes read from a track: accepted up to 1,000,000, refused beyond."""
    d = {'type': 'text', 'text': 'x' * n, 'time': 5}
    fb, _ = F.encode_file(1, 480, [[d, {'type': 'end_of_track', 'time': 0}]])
    try:
        mid = mido.MidiFile(file=io.BytesIO(fb))
    except OSError:
        if n > 1000000:
            return []
        return [fail('reader-refuses-within-limit', f'text of {n} bytes refused')]
    except Exception as exc:  # noqa: BLE001
        return [fail('reader-wrong-exception', f'n={n}: {exc!r}', exc=exc_sig(exc))]
    if n > 1000000:
        return [fail('reader-limit-not-enforced', f'text of {n} bytes accepted')]
    r = mid.tracks[0][0]
    if r.text != d['text'] or r.time != 5:
        return [fail('track-differs', f'text of {n} bytes came back with length {len(r.text)}')]
    return []


def nontrivial(case):
    if case.get('kind') in ('reader-limit', 'big-from-bytes', 'custom-spec'):
        return True
    if case.get('kind') == 'unknown':
        return len(case['data']) > 0
    t = case['type']
    if t not in M.META:
        return False
    dflt = dict(M.META[t][1])
    return any(n in dflt and dec(e) != dflt[n] for n, e in case['attrs'].items())


# ---- known findings ----------------------------------------------------------------------------------------------

def _kf_hours(case, f):
    return (case.get('type') == 'smpte_offset' and isinstance(case['attrs'].get('hours'), int)
            and 32 <= case['attrs']['hours'] <= 255
            and f['clause'] in ('from_bytes-differs', 'from_bytes-raises', 'track-differs', 'track-raises',
                                'unrepresentable', 'layout'))


def _seq_invalid(enc):
    v = dec(enc)
    try:
        return not all(R.is_int(b) and 0 <= b <= 255 for b in v)
    except TypeError:
        return True


def _kf_seqdata(case, f):
    if case.get('type') != 'sequencer_specific':
        return False
    enc = case['attrs'].get('data', [])
    as_list = isinstance(enc, list)
    if as_list and not _seq_invalid(enc) and f['clause'] in ('from_bytes-differs', 'track-differs'):
        return True              # list (the documented form and the default) decodes to a tuple that is != to it
    if _seq_invalid(enc) and f['clause'] in ('accepts-invalid', 'bytes-items', 'bytes-raises', 'wrong-exception'):
        return True              # contents are not validated at all
    return False


KNOWN = {'KF-C09-c': _kf_hours, 'KF-C09-d': _kf_seqdata}


# ---- enumeration ------------------------------------------------------------------------------------------------

def _both(rec, t, attrs, delta=0, **kw):
    for via in ('ctor', 'setattr'):
        rec.check({'type': t, 'attrs': attrs, 'via': via, 'delta': delta}, distinct=True, **kw)


def enum_shard(rec, shard):
    kind, k, n = shard
    if kind == 'seqnum':
        for v in range(k, 65536, n * (17 if rec.reduced else 1)):
            _both(rec, 'sequence_number', {'number': v}, delta=v % 300, sample=(v == 258))
    elif kind == 'misc':
        for e in range(256):
            _both(rec, 'time_signature', {'denominator': 2 ** e}, delta=e, sample=(e == 31))
            _both(rec, 'channel_prefix', {'channel': e}, sample=False)
            _both(rec, 'midi_port', {'port': e}, sample=False)
        for key in sorted(M.KEYS):
            _both(rec, 'key_signature', {'key': key}, delta=7, sample=(key == 'Ebm'))
        for fr in (24, 25, T('float', 29.97), 30):
            for h in (0, 1, 23, 30, 31):
                for mn in (0, 1, 58, 59):
                    for se in (0, 59):
                        for frm in (0, 1, 29, 254, 255):
                            for sf in (0, 1, 98, 99):
                                _both(rec, 'smpte_offset', {'frame_rate': fr, 'hours': h, 'minutes': mn, 'seconds': se,
                                                            'frames': frm, 'sub_frames': sf}, sample=False)
        for a in ('numerator', 'clocks_per_click', 'notated_32nd_notes_per_beat'):
            for v in (0, 1, 2, 127, 128, 254, 255):
                _both(rec, 'time_signature', {a: v}, sample=False)
        for v in (0, 1, 255, 256, 65535, 65536, 500000, 16777214, 16777215, 0x010203, 0x800000, 0x00FF00):
            _both(rec, 'set_tempo', {'tempo': v}, delta=3, sample=(v == 0x010203))
        _both(rec, 'end_of_track', {}, delta=9)
    elif kind == 'text':
        chars = ['a', '\x00', '\x7f', '\x80', '\xff', 'é', ' ', '\n', '"']
        for t, (_, attr) in sorted(M.TEXT_TYPES.items()):
            for ln in (0, 1, 2, 127, 128, 129, 16383, 16384):
                for c in (chars if ln <= 129 else ['a', '\xff']):
                    text = (c * ln) if ln < 3 else ('x' + c * (ln - 2) + 'y')
                    _both(rec, t, {attr: text}, delta=ln % 130, sample=False)
        for ln in (0, 1, 2, 127, 128, 129, 16383, 16384):
            data = [(i * 31 + 7) % 256 for i in range(ln)]
            _both(rec, 'sequencer_specific', {'data': T('tuple', data)}, delta=1, sample=(ln == 2))
    elif kind == 'outside':
        for (t, a), (lo, hi) in sorted(M.INT_RANGES.items()):
            bad = [lo - 1, hi + 1, -2 ** 70, 2 ** 70, T('float', float(lo)), T('float', 1.5), str(lo), None,
                   T('bytes', [1]), [1]]
            if (t, a) == ('smpte_offset', 'hours'):
                bad = [v for v in bad if v != hi + 1] + [256]
            for v in bad:
                _both(rec, t, {a: v}, sample=False)
        nonpow = [0, -1, -2, 3, 5, 6, 7, 9, 12, 2 ** 256, 2 ** 255 + 1, 2 ** 300, T('float', 4.0), T('float', 2.5), '4',
                  None, [4], T('float', 2.0 ** 60)]
        for k2 in range(2, 256):
            nonpow += [2 ** k2 + 1, 2 ** k2 - 1, 3 * 2 ** (k2 - 1)]
        for v in nonpow:
            _both(rec, 'time_signature', {'denominator': v}, sample=False)
        for v in ('H', 'c', 'Cm#', '', 'C ', 'Hm', 'A#', 'Fb', 'E#m', 0, None, ['C'], T('bytes', [67])):
            _both(rec, 'key_signature', {'key': v}, sample=False)
        for v in (23, 26, 29, T('float', 29.0), T('float', 29.98), '24', None, 0, -24, 60):
            _both(rec, 'smpte_offset', {'frame_rate': v}, sample=False)
        for t, (_, attr) in sorted(M.TEXT_TYPES.items()):
            for v in (T('bytes', [97]), 1, None, ['a'], T('float', 1.0), T('tuple', ['a'])):
                _both(rec, t, {attr: v}, sample=False)
        for t in sorted(M.META):
            for a in ('foo', 'data' if t != 'sequencer_specific' else 'text', 'type_byte', 'tempo'
                      if t != 'set_tempo' else 'key'):
                _both(rec, t, {a: 0}, sample=False)
            for v in ('1', None, [1], T('bytes', [1])):
                _both(rec, t, {'time': v}, sample=False)
    elif kind == 'unknown':
        for tb in S.UNKNOWN_TYPE_BYTES:
            for ln in (0, 1, 2, 127, 128, 129):
                data = [(i * 13 + tb) % 256 for i in range(ln)]
                rec.check({'kind': 'unknown', 'type_byte': tb, 'data': data, 'delta': (tb * 7 + ln) % 500},
                          distinct=True, sample=(tb == 0x60 and ln == 2))
            rec.check({'kind': 'unknown', 'type_byte': tb, 'data': [], 'omit_data': True}, distinct=True, sample=False)
    elif kind == 'known-class':
        # generated on purpose so that the recorded findings stay visible and counted, never reported as new
        for h in (32, 33, 63, 64, 100, 128, 200, 254, 255):
            for fr in (24, 25, T('float', 29.97), 30):
                _both(rec, 'smpte_offset', {'frame_rate': fr, 'hours': h}, sample=False)
        _both(rec, 'sequencer_specific', {}, sample=False)
        for data in ([], [1, 2], [0, 255], [300], [-1], ['a'], [1.5], 'abc'):
            _both(rec, 'sequencer_specific', {'data': data}, sample=False)


def hyp_shard(rec, shard):
    k, n = shard

    @st.composite
    def cases(draw):
        d = draw(S.meta_dict(time=st.just(0), text=S.latin1_text(300), eot=True))
        attrs = {}
        for name, v in d.items():
            if name in ('type', 'time'):
                continue
            if name == 'data':
                attrs[name] = T('tuple', list(v))
            elif isinstance(v, float):
                attrs[name] = T('float', v)
            else:
                attrs[name] = v
        return {'type': d['type'], 'attrs': attrs, 'via': draw(st.sampled_from(['ctor', 'setattr'])),
                'delta': draw(S.deltas())}
    rec.hyp(cases(), n, label='drawn', seed_offset=k)


def main(ctx):
    ctx.pmap('enum_shard', [('seqnum', k, 12) for k in range(12)] + [('misc', 0, 1), ('text', 0, 1), ('outside', 0, 1), ('unknown', 0, 1),
                                                                      ('known-class', 0, 1)])
    ctx.exhaustive = True
    ctx.extra['exhaustive_scope'] = ('denominators, keys, sequence numbers, channel_prefix, midi_port, frame rates x '
                                     'field limits: complete; tempo/text/data: boundary values + sampled')
    n = 1600 if ctx.tier == 'quick' else 48000
    ctx.pmap('hyp_shard', [(k, n // 8) for k in range(8)])
    ctx.check({'kind': 'custom-spec'}, classes=('custom-meta-spec',))
    ctx.check({'kind': 'big-from-bytes', 'n': 2 ** 21 + 1}, classes=('volume',), sample=False)
    limits = [1000000] if ctx.tier == 'quick' else [999999, 1000000, 1000001]
    for ln in limits:
        ctx.check({'kind': 'reader-limit', 'n': ln}, sample=False)
        if ln <= 1000000 and ctx.tier == 'thorough':
            ctx.check({'type': 'text', 'attrs': {'text': 'z' * ln}, 'via': 'ctor', 'delta': 1}, sample=False)
