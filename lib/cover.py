"""Optional statement coverage of the code under test (sys.monitoring, Python >= 3.12): which lines of mido/ does a check
execute at all?  Switched on by VERIF_COVER=<directory>; used by tools/coverage_report.py to look for blind spots.
Not part of any verdict."""
import json
import os
import sys

HITS = set()
ENABLED = [False]


def start(root):
    mon = getattr(sys, 'monitoring', None)
    if mon is None or ENABLED[0]:
        return
    root = os.path.realpath(root) + os.sep
    mon.use_tool_id(mon.COVERAGE_ID, 'verif-cover')

    def on_line(code, line):
        fn = code.co_filename
        if fn.startswith(root):
            HITS.add((fn[len(root):], line))
        return mon.DISABLE
    mon.register_callback(mon.COVERAGE_ID, mon.events.LINE, on_line)
    mon.set_events(mon.COVERAGE_ID, mon.events.LINE)
    ENABLED[0] = True


def dump(path):
    with open(path, 'w') as f:
        json.dump(sorted(HITS), f)
