"""C16 - a MidiFile always reflects its current contents (history independence)."""
import copy
import io

from hypothesis import strategies as st
from hypothesis.stateful import RuleBasedStateMachine, initialize, rule

import mido
import mido.midifiles.midifiles as mf
from lib import refmeta as M
from lib.harness import Violation, exc_sig, fail

LAST_TAGS = set()
PID = 'C16'
LEVEL = 'exploration'
RULE = ('Rule-based state machine over one MidiFile and a plain model (type, ticks_per_beat, list of lists of message '
        'dicts). Edit rules: add_track(name), tracks.append/insert/del/replace-list, track.append/insert/del/extend/'
        'item-assignment, attribute assignment on a contained message (time, note/velocity, tempo, text), track.name=, '
        'type=, ticks_per_beat=. Observation rules (each may fill a cache): list(mid), length, merged_track, play() on a '
        'fake clock, save(). Oracle: every observation equals the same observation on a freshly built '
        'MidiFile(type, ticks_per_beat, tracks=copy of the model) (same result or same exception type); the model is '
        'cross-checked against mid.tracks after every step (so an observation that edits the file is seen too). '
        'Non-trivial = observe -> edit other than add_track -> observe; distinct by op list.'
        ' Later additions: every observation also compared with an independent reference (reference merge, exact'
        ' tempo map, byte-exact reference encoding); charset edits; poking results; splitting / joining tracks; 12'
        ' 000-message files (70 000 thorough) with in-place edits between observations.')
ASSUMPTIONS = ['play() runs with time.sleep and now replaced by a fake clock']


def pool_msg(k, tm):
    k = k % 10
    if k == 8:
        return {'type': 'pitchwheel', 'channel': 3, 'pitch': -1, 'time': tm}
    if k == 9:
        return {'type': 'pitchwheel', 'channel': 3, 'pitch': -2, 'time': tm}
    if k == 7:
        return {'type': 'lyrics', 'text': 'é', 'time': tm}
    if k == 0:
        return {'type': 'note_on', 'channel': 0, 'note': 60, 'velocity': 64, 'time': tm}
    if k == 1:
        return {'type': 'note_off', 'channel': 1, 'note': 61, 'velocity': 0, 'time': tm}
    if k == 2:
        return {'type': 'set_tempo', 'tempo': 250000, 'time': tm}
    if k == 3:
        return {'type': 'set_tempo', 'tempo': 1000000, 'time': tm}
    if k == 4:
        return {'type': 'end_of_track', 'time': tm}
    if k == 5:
        return {'type': 'marker', 'text': 'x', 'time': tm}
    return {'type': 'control_change', 'channel': 2, 'control': 7, 'value': 100, 'time': tm}


class _Clock:
    def __init__(self):
        self.t = 100.0

    def now(self):
        return self.t

    def sleep(self, d):
        if d > 0:
            self.t += d

    def time(self):
        return self.t


SUSPENDED = []


def observe(mid, what):
    """Returns ('ok', value) or ('exc', exception type name)."""
    try:
        if what == 'iter':
            return 'ok', [(type(m).__name__, dict(vars(m))) for m in mid]
        if what == 'length':
            return 'ok', mid.length
        if what == 'merged':
            return 'ok', [(type(m).__name__, dict(vars(m))) for m in mid.merged_track]
        if what == 'play':
            clock = _Clock()
            saved = mf.time
            mf.time = clock
            try:
                return 'ok', [(type(m).__name__, dict(vars(m)), round(clock.t, 9)) for m in
                              mid.play(meta_messages=True, now=clock.now)]
            finally:
                mf.time = saved
        if what in ('play-abandoned', 'iter-abandoned', 'play-suspended', 'iter-suspended'):
            clock = _Clock()
            saved = mf.time
            mf.time = clock
            try:
                gen = mid.play(meta_messages=True, now=clock.now) if what.startswith('play') else iter(mid)
                got = []
                for m in gen:
                    got.append((type(m).__name__, dict(vars(m))))
                    if len(got) >= 2:
                        break
                if what.endswith('suspended'):
                    SUSPENDED.append(gen)       # started, not finished, still referenced: stays that way for the whole case
                elif hasattr(gen, 'close'):
                    gen.close()
                return 'ok', got
            finally:
                mf.time = saved
        if what == 'save':
            buf = io.BytesIO()
            mid.save(file=buf)
            return 'ok', buf.getvalue()
    except Exception as exc:  # noqa: BLE001
        return 'exc', type(exc).__name__
    raise KeyError(what)


def fresh(model):
    return mido.MidiFile(type=model['type'], ticks_per_beat=model['tpb'], charset=model.get('charset', 'latin1'),
                         tracks=[mido.MidiTrack([M.to_mido(d) for d in tr]) for tr in model['tracks']])


def reference(model, what):
    """The observation computed without mido's file logic (reference merge, exact tempo map, reference SMF encoder);
    None when the reference does not apply.  Guards against state that poisons the fresh file as well."""
    from fractions import Fraction
    from lib import refsmf as F
    if model['type'] == 2 and what != 'save':
        return None
    if any(d['time'] < 0 for t in model['tracks'] for d in t):
        return None         # negative deltas: only the staleness oracle (fresh file with the same contents) applies
    if what == 'merged':
        return [(d['type'], d['time']) for d in F.merge_model(model['tracks'])]
    if what in ('length', 'iter'):
        tempo = 500000
        cum = Fraction(0)
        times = []
        for d in F.merge_model(model['tracks']):
            ds = Fraction(d['time']) * tempo / (10 ** 6 * model['tpb'])
            cum += ds
            times.append((d['type'], float(ds)))
            if d['type'] == 'set_tempo':
                tempo = d['tempo']
        return float(cum) if what == 'length' else times
    if what == 'save':
        if model['type'] == 0 and len(model['tracks']) != 1:
            return None
        tracks = [F.canon_track(t) for t in model['tracks']]
        try:
            return F.encode_file(model['type'], model['tpb'], tracks, {'ev': [[[True, 0, 0] for _ in t] for t in tracks]},
                                 charset=model.get('charset', 'latin1'))[0]
        except UnicodeEncodeError:
            return None
    return None


def agrees(got, ref, what):
    if what == 'save':
        return got == ref
    if what == 'length':
        return abs(got - ref) <= 1e-9 * max(1.0, abs(ref))
    if what == 'merged':
        return [(t, v['time']) for t, v in [(v['type'], v) for _, v in got]] == ref
    if what == 'iter':
        g = [(v['type'], v['time']) for _, v in got]
        return len(g) == len(ref) and all(a[0] == b[0] and abs(a[1] - b[1]) <= 1e-9 * max(1.0, abs(b[1]))
                                          for a, b in zip(g, ref))
    return True


class Interp:
    def __init__(self):
        self.model = {'type': 1, 'tpb': 480, 'tracks': [], 'charset': 'latin1'}
        self.mid = mido.MidiFile(type=1, ticks_per_beat=480)
        self.fails = []
        self.observed = False
        self.edited_after_obs = False
        self.nt = False

    def _fail(self, clause, detail, **facts):
        self.fails.append(fail(clause, detail, **facts))

    def _edit(self, is_add_track=False):
        if self.observed and not is_add_track:
            self.edited_after_obs = True

    def _cross_check(self, op):
        mid, model = self.mid, self.model
        if mid.type != model['type'] or mid.ticks_per_beat != model['tpb']:
            self._fail('model-header', f'after {op}: {mid.type}/{mid.ticks_per_beat} vs model {model["type"]}/{model["tpb"]}')
            return
        if len(mid.tracks) != len(model['tracks']):
            self._fail('model-tracks', f'after {op}: {len(mid.tracks)} tracks, model {len(model["tracks"])}', op=op[0])
            return
        for ti, (tr, mt) in enumerate(zip(mid.tracks, model['tracks'])):
            if len(tr) != len(mt) or any(M.same(m, d) for m, d in zip(tr, mt)):
                self._fail('model-track-contents', f'after {op}: track {ti} is {list(tr)!r}, model {mt}', op=op[0])
                return
            # the track's name is, at any moment, that of its first track_name message ('' without one)
            want_name = next((d['name'] for d in mt if d['type'] == 'track_name'), '')
            if tr.name != want_name:
                self._fail('track-name', f'after {op}: track {ti}.name is {tr.name!r}, contents say {want_name!r}', op=op[0])
                return

    def step(self, op):
        kind = op[0]
        mid, model = self.mid, self.model
        nt = len(model['tracks'])
        try:
            if kind == 'add_track':
                name = op[1]
                tr = mid.add_track(name) if name is not None else mid.add_track()
                if type(tr) is not mido.MidiTrack or tr is not mid.tracks[-1]:
                    self._fail('add-track-result', f'add_track returned {tr!r}')
                model['tracks'].append([{'type': 'track_name', 'name': name, 'time': 0}] if name is not None else [])
                self._edit(True)
            elif kind == 'tracks_append':
                mid.tracks.append(mido.MidiTrack([M.to_mido(pool_msg(k, t)) for k, t in op[1]]))
                model['tracks'].append([pool_msg(k, t) for k, t in op[1]])
                self._edit()
            elif kind == 'tracks_insert':
                i = op[1] % (nt + 1)
                mid.tracks.insert(i, mido.MidiTrack([M.to_mido(pool_msg(k, t)) for k, t in op[2]]))
                model['tracks'].insert(i, [pool_msg(k, t) for k, t in op[2]])
                self._edit()
            elif kind == 'tracks_del':
                if nt:
                    i = op[1] % nt
                    del mid.tracks[i]
                    del model['tracks'][i]
                    self._edit()
            elif kind == 'track_split':
                # the same messages in the same flattened order, spread over one more track
                if nt:
                    i = op[1] % nt
                    j = op[2] % (len(model['tracks'][i]) + 1)
                    tail = mid.tracks[i][j:]
                    del mid.tracks[i][j:]
                    mid.tracks.insert(i + 1, mido.MidiTrack(tail))
                    mt = model['tracks'][i]
                    model['tracks'][i:i + 1] = [mt[:j], mt[j:]]
                    self._edit()
            elif kind == 'track_join':
                if nt >= 2:
                    i = op[1] % (nt - 1)
                    mid.tracks[i].extend(mid.tracks[i + 1])
                    del mid.tracks[i + 1]
                    model['tracks'][i:i + 2] = [model['tracks'][i] + model['tracks'][i + 1]]
                    self._edit()
            elif kind == 'reload':
                # from here on the object under test is one that the file READER produced (save, load, go on editing)
                import io
                from lib import refsmf as F
                try:
                    buf = io.BytesIO()
                    mid.save(file=buf)
                except (ValueError, TypeError):
                    return                  # present contents cannot be stored: stay with the in-memory object
                self.mid = mid = mido.MidiFile(file=io.BytesIO(buf.getvalue()), charset=model.get('charset', 'latin1'))
                model['tracks'] = [F.canon_track(t) for t in model['tracks']]
                self._edit()
            elif kind == 'tracks_replace':
                keep = [i for i in range(nt) if (op[1] >> i) & 1]
                mid.tracks = [mid.tracks[i] for i in keep]
                model['tracks'] = [model['tracks'][i] for i in keep]
                self._edit()
            elif kind in ('msg_append', 'msg_insert', 'msg_del', 'msg_set', 'msg_extend', 'msg_replace', 'name'):
                if not nt:
                    return
                ti = op[1] % nt
                tr, mt = mid.tracks[ti], model['tracks'][ti]
                if kind == 'msg_append':
                    tr.append(M.to_mido(pool_msg(op[2], op[3])))
                    mt.append(pool_msg(op[2], op[3]))
                elif kind == 'msg_insert':
                    i = op[4] % (len(mt) + 1)
                    tr.insert(i, M.to_mido(pool_msg(op[2], op[3])))
                    mt.insert(i, pool_msg(op[2], op[3]))
                elif kind == 'msg_extend':
                    tr.extend([M.to_mido(pool_msg(k, t)) for k, t in op[2]])
                    mt.extend([pool_msg(k, t) for k, t in op[2]])
                elif kind == 'name':
                    tr.name = op[2]
                    for d in mt:
                        if d['type'] == 'track_name':
                            d['name'] = op[2]
                            break
                    else:
                        mt.insert(0, {'type': 'track_name', 'name': op[2], 'time': 0})
                elif not mt:
                    return
                elif kind == 'msg_del':
                    i = op[2] % len(mt)
                    del tr[i]
                    del mt[i]
                elif kind == 'msg_replace':
                    i = op[4] % len(mt)
                    tr[i] = M.to_mido(pool_msg(op[2], op[3]))
                    mt[i] = pool_msg(op[2], op[3])
                elif kind == 'msg_set':
                    i = op[2] % len(mt)
                    d = mt[i]
                    attr = op[3]
                    if attr == 'time':
                        tr[i].time = op[4]
                        d['time'] = op[4]
                    elif attr == 'field':
                        name = {'note_on': 'note', 'note_off': 'velocity', 'set_tempo': 'tempo', 'marker': 'text',
                                'control_change': 'value', 'track_name': 'name', 'pitchwheel': 'pitch'}.get(d['type'])
                        if name is None:
                            return
                        val = {'tempo': 100000 + op[4] * 1000, 'text': f't{op[4]}', 'name': f'n{op[4]}',
                               'pitch': -1 - op[4] % 2}.get(name, op[4] % 128)
                        setattr(tr[i], name, val)
                        d[name] = val
                self._edit()
            elif kind == 'type':
                mid.type = op[1]
                model['type'] = op[1]
                self._edit()
            elif kind == 'tpb':
                mid.ticks_per_beat = op[1]
                model['tpb'] = op[1]
                self._edit()
            elif kind == 'charset':
                mid.charset = op[1]
                model['charset'] = op[1]
                self._edit()
            elif kind == 'poke_yielded':
                # messages handed out by iteration / play are the caller's copies
                try:
                    for m in mid:
                        m.time = 31337
                        if hasattr(m, 'note'):
                            m.note = 1
                except TypeError:
                    pass
                self._edit()
            elif kind == 'poke_merged':
                # the caller scribbles on a RESULT (the merged track it was handed): the file itself is unchanged
                try:
                    mt = mid.merged_track
                    if len(mt):
                        mt[-1].time = mt[-1].time + 480
                        mt[0].time = mt[0].time + 3
                except TypeError:
                    pass
                self._edit()
            elif kind == 'observe':
                what = op[1]
                got = observe(mid, what)
                want = observe(fresh(copy.deepcopy(model)), what)
                if got != want:
                    self._fail('stale-observation', f'{what}: edited file gives {str(got)[:300]}, fresh file with the '
                                                    f'same contents gives {str(want)[:300]}', what=what)
                elif got[0] == 'ok':
                    ref = reference(model, what)
                    if ref is not None and not agrees(got[1], ref, what):
                        self._fail('wrong-observation', f'{what}: file and fresh file agree on {str(got[1])[:200]} but the '
                                                        f'independent reference gives {str(ref)[:200]}', what=what)
                if self.edited_after_obs:
                    self.nt = True
                self.observed = True
            else:
                raise KeyError(kind)
        except Violation:
            raise
        except Exception as exc:  # noqa: BLE001
            self._fail('raises', f'op {op}: {exc!r}', exc=exc_sig(exc))
            return
        self._cross_check(op)


def run_case(case):
    LAST_TAGS.clear()
    del SUSPENDED[:]
    it = Interp()
    for op in case['ops']:
        it.step(op)
        if it.fails:
            break
    if it.nt:
        LAST_TAGS.add('observe-edit-observe')
    LAST_TAGS.update('op:' + op[0] if op[0] != 'observe' else 'observe:' + op[1] for op in case['ops'])
    return it.fails


def nontrivial(case):
    it = Interp()
    for op in case['ops']:
        it.step(op)
    return it.nt


_CTX = None
MSG = st.tuples(st.integers(0, 7), st.sampled_from([0, 0, 1, 120, 480, 960])).map(list)
TIMES = st.sampled_from([0, 1, 120, 480, 960, 2000, 240.5, 0.25, 480.0])


class FileMachine(RuleBasedStateMachine):
    def __init__(self):
        super().__init__()
        self.ops = []

    @initialize(n=st.integers(0, 2), data=st.data())
    def init(self, n, data):
        for _ in range(n):
            self.ops.append(['tracks_append', data.draw(st.lists(MSG, max_size=4))])

    @rule(name=st.sampled_from([None, None, 'a', 'lead']))
    def add_track(self, name):
        self.ops.append(['add_track', name])

    @rule(msgs=st.lists(MSG, max_size=3))
    def tracks_append(self, msgs):
        self.ops.append(['tracks_append', msgs])

    @rule(i=st.integers(0, 4), msgs=st.lists(MSG, max_size=3))
    def tracks_insert(self, i, msgs):
        self.ops.append(['tracks_insert', i, msgs])

    @rule(i=st.integers(0, 4))
    def tracks_del(self, i):
        self.ops.append(['tracks_del', i])

    @rule(mask=st.integers(0, 31))
    def tracks_replace(self, mask):
        self.ops.append(['tracks_replace', mask])

    @rule(ti=st.integers(0, 4), m=MSG)
    def msg_append(self, ti, m):
        self.ops.append(['msg_append', ti, m[0], m[1]])

    @rule(ti=st.integers(0, 4), m=MSG, i=st.integers(0, 8))
    def msg_insert(self, ti, m, i):
        self.ops.append(['msg_insert', ti, m[0], m[1], i])

    @rule(ti=st.integers(0, 4), m=MSG, i=st.integers(0, 8))
    def msg_replace(self, ti, m, i):
        self.ops.append(['msg_replace', ti, m[0], m[1], i])

    @rule(ti=st.integers(0, 4), i=st.integers(0, 8))
    def msg_del(self, ti, i):
        self.ops.append(['msg_del', ti, i])

    @rule(ti=st.integers(0, 4), msgs=st.lists(MSG, min_size=1, max_size=3))
    def msg_extend(self, ti, msgs):
        self.ops.append(['msg_extend', ti, msgs])

    @rule(ti=st.integers(0, 4), i=st.integers(0, 8), t=TIMES)
    def msg_set_time(self, ti, i, t):
        self.ops.append(['msg_set', ti, i, 'time', t])

    @rule(ti=st.integers(0, 4), i=st.integers(0, 8), v=st.integers(0, 300))
    def msg_set_field(self, ti, i, v):
        self.ops.append(['msg_set', ti, i, 'field', v])

    @rule(ti=st.integers(0, 4), name=st.sampled_from(['x', 'bass', '']))
    def set_name(self, ti, name):
        self.ops.append(['name', ti, name])

    @rule(t=st.sampled_from([0, 1, 1, 2]))
    def set_type(self, t):
        self.ops.append(['type', t])

    @rule(v=st.sampled_from([1, 96, 480, 960]))
    def set_tpb(self, v):
        self.ops.append(['tpb', v])

    @rule(cs=st.sampled_from(['latin1', 'utf-8', 'cp1252', 'utf-16']))
    def set_charset(self, cs):
        self.ops.append(['charset', cs])

    @rule(i=st.integers(0, 4), j=st.integers(0, 8))
    def track_split(self, i, j):
        self.ops.append(['track_split', i, j])

    @rule(i=st.integers(0, 4))
    def track_join(self, i):
        self.ops.append(['track_join', i])

    @rule()
    def reload(self):
        self.ops.append(['reload'])

    @rule()
    def poke_merged(self):
        self.ops.append(['poke_merged'])

    @rule()
    def poke_yielded(self):
        self.ops.append(['poke_yielded'])

    @rule(what=st.sampled_from(['iter', 'length', 'merged', 'play', 'save', 'play-abandoned', 'iter-abandoned', 'play-suspended',
                                'iter-suspended']))
    def observe(self, what):
        self.ops.append(['observe', what])

    def teardown(self):
        ops = self.ops + [['observe', w] for w in ('length', 'iter', 'save', 'merged', 'play')]
        unknown = _CTX.run_tagged({'ops': ops})
        if unknown:
            raise Violation(unknown[0]['sig'])


def machine_shard(rec, shard):
    global _CTX
    _CTX = rec
    k, n, steps = shard
    rec.machine(FileMachine, n, steps, label='file-machine', seed_offset=k)


def volume_cases(sizes=(12000, 70000)):
    """Files of 12 000 and 70 000 messages: observe, edit in place (track objects and lengths unchanged), observe."""
    for size in sizes:
        body = [[i % 2, 1 + i % 3] for i in range(size)]
        for first, second in (('length', 'length'), ('iter', 'length'), ('merged', 'iter'), ('length', 'merged'),
                              ('play-abandoned', 'length'), ('save', 'length')):
            for edit in (['msg_set', 0, 5, 'field', 7], ['msg_set', 0, 5, 'time', 960], ['msg_replace', 0, 3, 50, 9],
                         ['msg_replace', 0, 0, 1, 11]):
                if size > 12000 and ((first, second) != ('length', 'length') or edit[3] != 'time'):
                    continue
                yield {'ops': [['tracks_append', [[2, 0]] + body], ['tracks_append', [[1, 5]]], ['observe', first], edit,
                               ['observe', second]]}


def volume_shard(rec, shard):
    k, n, sizes = shard
    for i, case in enumerate(volume_cases(sizes)):
        if i % n == k:
            rec.check_tagged(case, sample=False, classes=('volume',))


def main(ctx):
    sizes = (12000,) if ctx.tier == 'quick' or ctx.reduced else (12000, 70000)
    ctx.pmap('volume_shard', [(k, 12, sizes) for k in range(12)])
    n = 2400 if ctx.tier == 'quick' else 24000
    w = 8 if ctx.tier == 'quick' else 16
    ctx.pmap('machine_shard', [(k, n // w, 25 if ctx.tier == 'quick' else 40) for k in range(w)])
    # the documented two-message example and its variants, for every observation pair
    for first in ('length', 'iter', 'merged', 'play', 'save', 'play-abandoned', 'iter-abandoned', 'play-suspended', 'iter-suspended'):
        for second in ('length', 'iter', 'merged', 'play', 'save'):
            for edit in (['poke_merged'], ['poke_yielded'], ['msg_set', 0, 0, 'time', 240.5], ['type', 0], ['add_track', 'x'], ['charset', 'utf-8'], ['msg_append', 0, 7, 10], ['msg_append', 0, 1, 480], ['msg_set', 0, 0, 'time', 960], ['msg_set', 0, 0, 'field', 5],
                         ['track_split', 0, 1], ['track_split', 0, 2], ['msg_set', 0, 0, 'time', -2],
                         ['msg_replace', 0, 3, 0, 0], ['tracks_append', [[0, 480]]], ['tpb', 96], ['msg_del', 0, 0],
                         ['tracks_replace', 0], ['name', 0, 'q']):
                ctx.check({'ops': [['add_track', None], ['msg_append', 0, 0, 480], ['msg_append', 0, 2, 0],
                                   ['msg_append', 0, 1, 480], ['observe', first], edit, ['observe', second]]})
        for second in ('length', 'iter', 'merged', 'play', 'save'):
            for edit in (['msg_set', 0, 0, 'field', 5], ['msg_set', 0, 1, 'field', 7], ['msg_replace', 0, 3, 0, 0],
                         ['msg_set', 0, 0, 'time', 960]):
                ctx.check({'ops': [['add_track', None], ['msg_append', 0, 0, 480], ['msg_append', 0, 2, 0],
                                   ['msg_append', 0, 1, 480], ['reload'], ['observe', first], edit, ['observe', second]]})
            ctx.check({'ops': [['add_track', None], ['msg_append', 0, 8, 480], ['msg_append', 0, 1, 480], ['observe', first],
                               ['msg_set', 0, 0, 'field', 1], ['observe', second]]})
            ctx.check({'ops': [['add_track', None], ['msg_append', 0, 0, -1], ['msg_append', 0, 1, 480], ['observe', first],
                               ['msg_set', 0, 0, 'time', -2], ['observe', second]]})
            ctx.check({'ops': [['add_track', None], ['msg_append', 0, 0, 240], ['add_track', None], ['msg_append', 1, 1, 480],
                               ['observe', first], ['track_join', 0], ['observe', second]]})
