#!/usr/bin/env python3
"""Write the task text for the sub-agents that produce seeded changes (one file per property) and create their scratch
worktrees under /tmp/seed.  The text contains the property record and generic instructions only - nothing else from
/verif.   usage: tools/make_seed_prompts.py <round-tag> [extra-instructions-file]"""
import json
import os
import subprocess
import sys

T = """You are helping to evaluate a verification framework by producing realistic *seeded defects* for the Python MIDI library "mido".

You have your own scratch git worktree of the library at: {wt}
Work ONLY inside {wt} and your output directory {out} (create it). Do NOT read, write or list anything under /repo or /verif, and do not look at other directories under /tmp/seed. Nothing can be downloaded (no network).

Interpreter: /venv/bin/python (3.12, pytest installed). Always run things as
    cd {wt} && PYTHONPATH={wt} /venv/bin/python ...
and make sure `mido.__file__` points into {wt}.
The existing test-suite command is:
    cd {wt} && PYTHONPATH={wt} /venv/bin/python -m pytest -q -p no:cacheprovider --timeout=900
(ignore tests/midifiles/test_tracks.py::test_merge_large_midifile, which is timing-flaky).

Here is a semantic property of mido that currently HOLDS on this tree (JSON record; the "statement" and "quantifier" are what matter, "anchors" tell you where the mechanism lives):

{prop}

YOUR TASK: produce TWO different, independent source changes ("mutants") to files under {wt}/mido/ such that EACH of them, applied alone:
  1. still imports/compiles and the whole existing test-suite above still passes (run it and confirm);
  2. BREAKS the property above (some behaviour the statement promises no longer holds);
  3. looks like a realistic mistake or plausible refactoring/optimisation a maintainer could make (not sabotage like `if x == 12345`), is small (a few lines), and
  4. needs something SPECIFIC to manifest - a particular interleaving, a fault/crash at a particular point, a multi-step sequence of operations, an unusual input (boundary value, particular length, particular combination of attribute values, rare message type), or two cooperating sites that each look fine alone. Do NOT produce changes that ordinary everyday use (the most common call with common values) would expose at once. The two mutants should attack different clauses/mechanisms of the property.
{extra}
For each mutant k in (1, 2) write into {out}/m<k>/ :
  - patch.diff : output of `git -C {wt} diff` for that mutant alone (must apply with `git apply` to a clean checkout of the same commit);
  - demo.py    : a small self-contained program (only stdlib + mido) that demonstrates the violation: run as `PYTHONPATH=<tree> /venv/bin/python demo.py` it must exit 0 and print "OK" on the UNPATCHED tree and exit 1 printing what went wrong on the PATCHED tree. It must be deterministic (no wall-clock races; if threads are needed, force the interleaving deterministically, e.g. with events/hooks/monkeypatching in the demo) and finish within 30 s;
  - meta.json  : {{"property": "{pid}", "files_changed": [...], "clause_broken": "<which sentence/clause of the statement>", "needs_to_manifest": "<what specific input/sequence/interleaving/fault is required>", "why_tests_pass": "<why the existing suite cannot see it>", "commands_run": ["..."], "demo_output_unpatched": "...", "demo_output_patched": "..."}}

Procedure per mutant: edit files in {wt}; run the test-suite (must pass); run demo.py (must fail); save `git diff` to patch.diff; `git -C {wt} checkout -- .` ; run demo.py again on the clean tree (must print OK / exit 0); then verify `git -C {wt} apply --check {out}/m<k>/patch.diff` succeeds on the clean tree.
At the very end make sure {wt} is clean (`git -C {wt} status --short` prints nothing; remove any files you created inside it, including __pycache__ leftovers are fine).

Only changes under {wt}/mido/ count (not tests, not docs). Do not change the tests. Report back briefly: for each mutant one paragraph (what was changed, what is needed to see it, and confirmation of the three runs).
"""


def main():
    tag = sys.argv[1]
    extra = open(sys.argv[2]).read() if len(sys.argv) > 2 else ''
    here = os.path.dirname(os.path.dirname(os.path.abspath(__file__)))
    os.makedirs(f'/tmp/seed/prompts{tag}', exist_ok=True)
    os.makedirs(f'/tmp/seed/out{tag}', exist_ok=True)
    for line in open(os.path.join(here, 'properties.jsonl')):
        d = json.loads(line)
        pid = d['id']
        wt = f'/tmp/seed/{pid}'
        if not os.path.isdir(wt):
            subprocess.run(['git', '-C', '/repo', 'worktree', 'add', '-q', '--detach', wt, 'HEAD'], check=True)
        rec = {k: d[k] for k in ('id', 'title', 'statement', 'quantifier', 'why_tests_cant', 'anchors')}
        text = T.format(wt=wt, out=f'/tmp/seed/out{tag}/{pid}', pid=pid, prop=json.dumps(rec, indent=1),
                        extra=('\n' + extra + '\n') if extra else '')
        open(f'/tmp/seed/prompts{tag}/{pid}.txt', 'w').write(text)
    print('prompts in', f'/tmp/seed/prompts{tag}')


if __name__ == '__main__':
    main()
