"""C20 - backend selection and port-opening arguments resolve deterministically."""
import importlib.abc
import importlib.machinery
import itertools
import os
import sys

from hypothesis import strategies as st

import mido
from mido.backends.backend import Backend
from lib.harness import exc_sig, fail

PID = 'C20'
LEVEL = 'exploration'
RULE = ('The full finite grid is enumerated in both tiers: function {open_input, open_output, open_ioport, '
        'get_input_names, get_output_names, get_ioport_names} x port name given/absent x each of MIDO_DEFAULT_INPUT / '
        'OUTPUT / IOPORT set/unset x backend named explicitly or through MIDO_BACKEND, with or without "/API" x api from '
        '{backend name suffix, api= to Backend, api= to the call, both backend and call, absent} x use_environ x load x fake '
        'module with/without native IOPort x with/without get_devices x entry {Backend method, mido.<function> after '
        'set_backend(name), after set_backend(Backend object)}; Hypothesis adds device lists (duplicates, a name listed as '
        'input and as output separately, order). Oracle: reference resolution written from the statement: the fake module '
        '(served by an in-memory import finder that logs every import) is not imported before the first open_*/get_* call '
        'unless load=True, and exactly once; constructor calls carry the port name explicit > environment (when '
        'use_environ) > None, IOPORT before the two single variables for the wrapped pair; api = call keyword, else the '
        'backend\'s, present in every constructor and get_devices call; virtual/callback/autoreset forwarded; native IOPort '
        'used when present, else mido.ports.IOPort over the module\'s Input and Output; listings equal the reference filter; '
        'set_backend rebinds the top-level functions and mido.backend. Non-trivial = two sources disagree so that '
        'precedence decides; distinct by configuration tuple (by construction).'
        ' Later additions: histories of set_backend on the same module, environment changed between two calls on'
        ' one Backend object, looking at a backend (repr, loaded) must not import it, Backend subclasses with'
        ' further open_*/get_* functions, open_ioport(virtual=True) with environment defaults.')
ASSUMPTIONS = ['cells the statement leaves undefined are not generated: empty-string environment values, api= together '
               'with a /API name, MIDO_BACKEND with use_environ=False']

ENVV = ('MIDO_BACKEND', 'MIDO_DEFAULT_INPUT', 'MIDO_DEFAULT_OUTPUT', 'MIDO_DEFAULT_IOPORT')
EVENTS = []
_COUNTER = itertools.count()

SRC = '''
from collections import deque
import {recmod} as _rec
_rec.EVENTS.append(('import', __name__))
class _Port:
    kind = None
    def __init__(self, name=None, **kwargs):
        _rec.EVENTS.append((self.kind, name, dict(kwargs)))
        self.name = name
        self.closed = False
        self._messages = deque()
    def close(self):
        self.closed = True
class Input(_Port):
    kind = 'Input'
class Output(_Port):
    kind = 'Output'
'''
SRC_IOPORT = '''
class IOPort(_Port):
    kind = 'IOPort'
'''
SRC_IOPORT_SUBCLASS = '''
import mido.ports as _mp
class IOPort(_mp.IOPort):
    """A native duplex port written on top of mido's wrapper class (takes a name, opens one handle)."""
    kind = 'IOPort'
    def __init__(self, name=None, **kwargs):
        self.name = name
        self.kwargs = dict(kwargs)
        self._lock = _mp.DummyLock()
        self.closed = False
        _rec.EVENTS.append((self.kind, name, dict(kwargs)))
    def _close(self):
        pass
'''
SRC_DEVICES = '''
DEVICES = {devices!r}
def get_devices(**kwargs):
    _rec.EVENTS.append(('get_devices', None, dict(kwargs)))
    return [dict(d) for d in DEVICES]
'''


class FakeFinder(importlib.abc.MetaPathFinder, importlib.abc.Loader):
    def __init__(self):
        self.sources = {}

    def find_spec(self, fullname, path=None, target=None):
        if fullname in self.sources:
            return importlib.machinery.ModuleSpec(fullname, self)
        return None

    def create_module(self, spec):
        return None

    def exec_module(self, module):
        exec(self.sources[module.__name__], module.__dict__)  # noqa: S102


FINDER = FakeFinder()


def devices_default():
    return [{'name': 'A', 'is_input': True, 'is_output': False}, {'name': 'B', 'is_input': False, 'is_output': True},
            {'name': 'C', 'is_input': True, 'is_output': True}, {'name': 'D', 'is_input': True, 'is_output': False},
            {'name': 'D', 'is_input': False, 'is_output': True}, {'name': 'A2', 'is_input': True, 'is_output': True}]


def ref_names(devs, fn):
    ins = [d['name'] for d in devs if d['is_input']]
    outs = [d['name'] for d in devs if d['is_output']]
    if fn == 'get_input_names':
        return ins
    if fn == 'get_output_names':
        return outs
    return [n for n in ins if n in set(outs)]


def run_case(case):
    global EVENTS
    saved_env = {k: os.environ.get(k) for k in ENVV}
    saved_meta = list(sys.meta_path)
    modname = f'c20fake_{next(_COUNTER)}_{os.getpid()}'
    this = sys.modules[__name__]
    sys.modules.setdefault('c20_recorder_alias', this)
    del EVENTS[:]
    src = SRC.format(recmod='c20_recorder_alias')
    if case['native_ioport']:
        src += SRC_IOPORT_SUBCLASS if case.get('native_subclass') else SRC_IOPORT
    devs = case.get('devices', devices_default())
    if case['has_devices']:
        src += SRC_DEVICES.format(devices=devs)
    FINDER.sources[modname] = src
    if FINDER not in sys.meta_path:
        sys.meta_path.insert(0, FINDER)
    out = []
    try:
        out = _run(case, modname, devs)
    except Exception as exc:  # noqa: BLE001
        out = [fail('raises', f'{case}: {exc!r}', exc=exc_sig(exc), fn=case['fn'])]
    finally:
        for k, v in saved_env.items():
            if v is None:
                os.environ.pop(k, None)
            else:
                os.environ[k] = v
        sys.modules.pop(modname, None)
        FINDER.sources.pop(modname, None)
        sys.meta_path[:] = saved_meta
        try:
            mido.set_backend()
        except Exception:  # noqa: BLE001
            pass
    return out


def _run(case, modname, devs):
    fn = case['fn']
    for k in ENVV:
        os.environ.pop(k, None)
    env = case['env']
    for k, v in env.items():
        os.environ[k] = v
    # ---- backend naming / api sources ----
    suffix = case['api_suffix']                 # 'SUF' or None: part of the backend name
    bk_api = case['api_backend']                # api= given to Backend(...)
    call_api = case['api_call']                 # api= given to the call
    full = modname + ('/' + suffix if suffix else '')
    if case['name_via'] == 'env':
        os.environ['MIDO_BACKEND'] = full
        name_arg = None
    else:
        name_arg = full
        if case.get('decoy_env'):
            # an explicit backend name beats MIDO_BACKEND completely: neither the module named there nor its API suffix
            # may show up anywhere (the decoy module does not exist - importing it would raise)
            os.environ['MIDO_BACKEND'] = 'c20_no_such_backend_module/DECOYAPI'
    facts = dict(fn=fn, entry=case['entry'])
    n_before = len(EVENTS)
    # ---- history: earlier selections of the SAME module (other api), optionally used so that the module is loaded ----
    preloaded = False
    for pre in case.get('prelude', []):
        old_name = modname + ('/' + pre['suffix'] if pre.get('suffix') else '')
        if pre.get('via') == 'obj':
            mido.set_backend(Backend(modname, api=pre.get('suffix'), use_environ=True))
        else:
            saved_env_bk = os.environ.pop('MIDO_BACKEND', None)
            mido.set_backend(old_name)
            if saved_env_bk is not None:
                os.environ['MIDO_BACKEND'] = saved_env_bk
        if pre.get('use'):
            mido.get_input_names()
            preloaded = True
    n_pre = len(EVENTS)
    if case['entry'] == 'method':
        kw = {}
        if bk_api:
            kw['api'] = bk_api
        bk = Backend(name_arg, load=case['load'], use_environ=case['use_environ'], **kw)
        target = bk
    elif case['entry'] == 'set_backend_name':
        mido.set_backend(name_arg, load=case['load'])
        bk = mido.backend
        target = mido
    else:
        kw = {}
        if bk_api:
            kw['api'] = bk_api
        if case.get('subclass'):
            # a Backend object of a subclass that brings further open_*/get_* functions (the documented contract is
            # "replace all the open_*() and get_*_name() functions in top level mido module")
            class RichBackend(Backend):
                def open_virtual_output(self, name=None, **kwargs):
                    return self.open_output(name, virtual=True, **kwargs)

                def get_extra_names(self, **kwargs):
                    return sorted(self.get_output_names(**kwargs))
            bk = RichBackend(name_arg, load=case['load'], use_environ=case['use_environ'], **kw)
        else:
            bk = Backend(name_arg, load=case['load'], use_environ=case['use_environ'], **kw)
        try:
            mido.set_backend(bk)
            extras = {nm: getattr(mido, nm, None) for nm in ('open_virtual_output', 'get_extra_names')}
        finally:
            for nm in ('open_virtual_output', 'get_extra_names'):
                vars(mido).pop(nm, None)
        target = mido
        if mido.backend is not bk:
            return [fail('set_backend-object', 'mido.backend is not the Backend object passed to set_backend', **facts)]
        if case.get('subclass'):
            for nm, f in extras.items():
                if getattr(f, '__self__', None) is not bk:
                    return [fail('set_backend-rebinding', f'mido.{nm} is not bound to the chosen backend object (it is {f!r})',
                                 **facts)]
    out = []
    # looking at the backend (repr, loaded, name, api) is not "needing" the module
    text = repr(bk) + str(bk.loaded) + str(bk.name) + str(bk.api)
    if modname not in text or (not case['load'] and not preloaded and 'not loaded' not in text):
        out.append(fail('repr', f'repr of an unused backend: {text!r}', **facts))
    imported = [e for e in EVENTS[n_before:] if e[0] == 'import']
    if preloaded:
        if len(imported) != 1:
            out.append(fail('import-count', f'module imported {len(imported)} times over the history', **facts))
        if not case['load'] and bk.loaded:
            out.append(fail('eager-import', 'a new Backend object is loaded before its first use', **facts))
    elif case['load']:
        if len(imported) != 1 or modname not in sys.modules:
            out.append(fail('load-true-not-loaded', f'load=True but import events {imported}', **facts))
    else:
        if imported or modname in sys.modules or bk.loaded:
            out.append(fail('eager-import', f'module imported before first use: {imported}', **facts))
    if case['entry'] != 'method' and mido.backend is not bk:
        out.append(fail('set_backend-rebinding', 'mido.backend is not the newly selected backend', **facts))
        return out
    del n_pre
    exp_api = call_api or bk_api or suffix
    if bk.name != modname or bk.api != (bk_api or suffix):
        out.append(fail('backend-name-api', f'name/api = {bk.name!r}/{bk.api!r}, expected {modname!r}/'
                                            f'{(bk_api or suffix)!r}', **facts))
        return out
    use_env = case['use_environ'] if case['entry'] != 'set_backend_name' else True
    # ---- the call, twice (second call must not import again) ----
    func = getattr(target, fn)
    if case['entry'] != 'method' and getattr(func, '__self__', None) is not bk:
        out.append(fail('set_backend-rebinding', f'mido.{fn} is not bound to the new backend', **facts))
        return out
    call_kw = {}
    if call_api:
        call_kw['api'] = call_api
    explicit = case['port_name']
    flags = case.get('flags', {})
    results = []
    env_by_rep = [dict(env), dict(env)]
    if case.get('env_change'):
        # between the two calls the environment changes (values replaced, one variable removed): nothing may be remembered
        env2 = {k: v + '-2' for k, v in env.items()}
        if 'MIDO_DEFAULT_OUTPUT' in env2:
            del env2['MIDO_DEFAULT_OUTPUT']
        env2.setdefault('MIDO_DEFAULT_INPUT', 'late-in')
        env_by_rep[1] = env2
    for rep in range(2):
        if rep == 1 and case.get('env_change'):
            for k in ENVV[1:]:
                os.environ.pop(k, None)
            os.environ.update(env_by_rep[1])
        del_from = len(EVENTS)
        if fn.startswith('open'):
            kw = dict(call_kw)
            kw.update(flags)
            res = func(explicit, **kw) if explicit is not None else func(**kw)
        else:
            res = func(**call_kw)
        results.append((res, EVENTS[del_from:]))
    all_imports = [e for e in EVENTS[n_before:] if e[0] == 'import']
    if len(all_imports) != 1:
        out.append(fail('import-count', f'module imported {len(all_imports)} times', **facts))
    for rep, (res, evs) in enumerate(results):
        evs = [e for e in evs if e[0] != 'import']
        env = env_by_rep[rep]
        envget = (lambda k, env=env: env.get(k)) if use_env else (lambda k: None)
        if fn.startswith('get'):
            if case['has_devices']:
                if len(evs) != 1 or evs[0][0] != 'get_devices':
                    out.append(fail('get_devices-calls', f'{fn}: calls {evs}', **facts))
                    continue
                if evs[0][2].get('api') != exp_api or ('api' in evs[0][2]) != bool(exp_api):
                    out.append(fail('api-not-forwarded', f'{fn}: get_devices kwargs {evs[0][2]}, expected api={exp_api!r}',
                                    site='get_devices', **facts))
                want = ref_names(devs, fn)
            else:
                want = []
                if evs:
                    out.append(fail('get_devices-calls', f'{fn}: unexpected calls {evs}', **facts))
            if res != want:
                out.append(fail('name-listing', f'{fn} -> {res}, expected {want} (devices {devs})', **facts))
            continue
        # ---- open_* ----
        if fn == 'open_input':
            want_calls = [('Input', explicit if explicit is not None else envget('MIDO_DEFAULT_INPUT'))]
        elif fn == 'open_output':
            want_calls = [('Output', explicit if explicit is not None else envget('MIDO_DEFAULT_OUTPUT'))]
        else:
            name = explicit if explicit is not None else envget('MIDO_DEFAULT_IOPORT')
            if case['native_ioport']:
                want_calls = [('IOPort', name)]
            elif name is not None:
                want_calls = [('Input', name), ('Output', name)]
            else:
                want_calls = [('Input', envget('MIDO_DEFAULT_INPUT')), ('Output', envget('MIDO_DEFAULT_OUTPUT'))]
        got_calls = [(e[0], e[1]) for e in evs]
        if sorted(got_calls, key=str) != sorted(want_calls, key=str):
            out.append(fail('port-name-resolution', f'{fn}({explicit!r}) env={env} use_environ={use_env}: constructor calls '
                                                    f'{got_calls}, expected {want_calls}', **facts))
            continue
        for e in evs:
            kw = e[2]
            if kw.get('api') != exp_api or ('api' in kw) != bool(exp_api):
                out.append(fail('api-not-forwarded', f'{fn}: {e[0]} kwargs {kw}, expected api={exp_api!r}', site=e[0],
                                **facts))
            for fl, val in flags.items():
                relevant = {'Input': ('virtual', 'callback'), 'Output': ('virtual', 'autoreset'),
                            'IOPort': ('virtual', 'callback', 'autoreset')}[e[0]]
                if fl in relevant and kw.get(fl) != val:
                    out.append(fail('flag-not-forwarded', f'{fn}: {e[0]} kwargs {kw} lack {fl}={val!r}', flag=fl, **facts))
        mod = sys.modules[modname]
        if fn == 'open_ioport':
            if case['native_ioport']:
                if type(res) is not mod.IOPort:
                    out.append(fail('ioport-kind', f'native IOPort present but result is {type(res)}', **facts))
            else:
                if type(res) is not mido.ports.IOPort or type(res.input) is not mod.Input or type(res.output) is not mod.Output:
                    out.append(fail('ioport-kind', f'expected mido.ports.IOPort over Input/Output, got {type(res)}', **facts))
        elif type(res) is not getattr(mod, 'Input' if fn == 'open_input' else 'Output'):
            out.append(fail('port-kind', f'{fn} returned {type(res)}', **facts))
    return out


def nontrivial(case):
    env = case['env']
    apis = [a for a in (case['api_suffix'], case['api_backend'], case['api_call']) if a]
    if len(set(apis)) >= 2:
        return True
    if case['fn'].startswith('open') and case['port_name'] is not None and env:
        return True
    if case['fn'] == 'open_ioport' and 'MIDO_DEFAULT_IOPORT' in env and len(env) > 1:
        return True
    return False


def grid():
    fns = ['open_input', 'open_output', 'open_ioport', 'get_input_names', 'get_output_names', 'get_ioport_names']
    envs = []
    for bits in itertools.product([False, True], repeat=3):
        e = {}
        for b, k, v in zip(bits, ENVV[1:], ('envIN', 'envOUT', 'envIO')):
            if b:
                e[k] = v
        envs.append(e)
    api_cfgs = [(None, None, None), ('SUF', None, None), (None, 'BKAPI', None), (None, None, 'CALLAPI'),
                ('SUF', None, 'CALLAPI'), (None, 'BKAPI', 'CALLAPI')]
    for fn in fns:
        names = [None, 'explicit'] if fn.startswith('open') else [None]
        for pn, env, (suf, bka, ca), use_env, load, nat, hasdev, entry, via in itertools.product(
                names, envs, api_cfgs, [True, False], [False, True], [False, True], [False, True],
                ['method', 'set_backend_name', 'set_backend_obj'], ['explicit', 'env']):
            if entry == 'set_backend_name' and (bka or not use_env):
                continue            # set_backend(name) cannot carry api= or use_environ=False
            if via == 'env' and not use_env:
                continue            # MIDO_BACKEND with use_environ=False: undefined cell
            if fn.startswith('get') and (nat or (env and len(env) < 3)):
                continue            # irrelevant dimensions for listings: keep one representative
            if fn in ('open_input', 'open_output') and nat:
                continue
            yield {'fn': fn, 'port_name': pn, 'env': env, 'api_suffix': suf, 'api_backend': bka, 'api_call': ca,
                   'use_environ': use_env, 'load': load, 'native_ioport': nat, 'has_devices': hasdev, 'entry': entry,
                   'name_via': via, 'flags': {}}


def grid_shard(rec, shard):
    k, n = shard
    for i, case in enumerate(grid()):
        if i % n == k:
            rec.check(case, distinct=True, sample=(i % 4001 == 0))
            if case['fn'].startswith('open') and case['port_name'] is None and i % 3 == 0:
                c = dict(case)
                c['env_change'] = True
                rec.check(c, distinct=True, sample=False, classes=('env-change',))
            if case['entry'] != 'method' and i % 5 == 0:
                # the same selection made after an earlier selection of the same module with another api
                for pre in ([{'suffix': 'OLD', 'use': True}], [{'suffix': 'OLD', 'use': False}],
                            [{'suffix': None, 'use': True, 'via': 'obj'}],
                            [{'suffix': 'OLD', 'use': True}, {'suffix': 'OLDER', 'use': True, 'via': 'obj'}]):
                    c = dict(case)
                    c['prelude'] = pre
                    rec.check(c, distinct=True, sample=False, classes=('history',))
            if case['native_ioport'] and case['fn'] == 'open_ioport' and i % 2 == 1:
                c = dict(case)
                c['native_subclass'] = True
                rec.check(c, distinct=True, sample=False, classes=('native-ioport-derived-from-mido',))
            if case['name_via'] == 'explicit' and i % 2 == 0:
                c = dict(case)
                c['decoy_env'] = True
                rec.check(c, distinct=True, sample=False, classes=('decoy-MIDO_BACKEND',))
            if case['entry'] == 'set_backend_obj' and i % 3 == 0:
                c = dict(case)
                c['subclass'] = True
                rec.check(c, distinct=True, sample=False, classes=('backend-subclass',))
            if case['fn'] == 'open_ioport' and case['port_name'] is None and case['env'] and i % 7:
                c = dict(case)
                c['flags'] = {'virtual': True}
                rec.check(c, distinct=True, sample=False)
            if case['fn'].startswith('open') and i % 7 == 0:
                c = dict(case)
                c['flags'] = {'open_input': {'virtual': True, 'callback': 'CB'},
                              'open_output': {'virtual': True, 'autoreset': True},
                              'open_ioport': {'virtual': True, 'callback': 'CB', 'autoreset': True}}[case['fn']]
                rec.check(c, distinct=True, sample=False)


def hyp_shard(rec, shard):
    k, n = shard
    dev = st.fixed_dictionaries({'name': st.sampled_from(['A', 'B', 'C', 'A', 'x y', '']), 'is_input': st.booleans(),
                                 'is_output': st.booleans()})
    strat = st.fixed_dictionaries({
        'fn': st.sampled_from(['get_input_names', 'get_output_names', 'get_ioport_names']),
        'port_name': st.none(), 'env': st.just({}), 'api_suffix': st.sampled_from([None, 'S']),
        'api_backend': st.none(), 'api_call': st.sampled_from([None, 'C']), 'use_environ': st.booleans(),
        'load': st.booleans(), 'native_ioport': st.booleans(), 'has_devices': st.just(True),
        'entry': st.sampled_from(['method', 'set_backend_obj']), 'name_via': st.just('explicit'), 'flags': st.just({}),
        'devices': st.lists(dev, max_size=8)})
    rec.hyp(strat, n, seed_offset=k)


def main(ctx):
    ctx.pmap('grid_shard', [(k, 16) for k in range(16)])
    ctx.exhaustive = True
    ctx.extra['exhaustive_scope'] = 'the configuration grid described in the rule (undefined cells excluded)'
    n = 2000 if ctx.tier == 'quick' else 20000
    ctx.pmap('hyp_shard', [(k, n // 4) for k in range(4)])
